"""Load sdpython/mlinsights from /repo's *working tree* with its Cython extensions built
out of tree (DESIGN 1.2 / A.3).

* .py files are imported from REPO (default /repo, override with VERIF_REPO);
* .pyx/.pxd files are copied into /verif/.build/ext-<hash>/src, cythonized and compiled there;
  the hash covers the Cython sources and the numpy/sklearn/Cython versions, so an edited .pyx is
  rebuilt and an unchanged one is reused;
* `sklearn.utils._joblib` (removed from scikit-learn) is shimmed;
* the hook guard MLINSIGHTS_VERIF=1 is set before anything from the repo is imported.

Nothing is written into /repo and nothing is kept under /tmp.
"""
import hashlib
import importlib
import importlib.util
import os
import shutil
import subprocess
import sys
import types

VERIF = os.path.dirname(os.path.dirname(os.path.abspath(__file__)))
REPO = os.environ.get("VERIF_REPO", "/repo")
BUILD = os.path.join(VERIF, ".build")
PY = "/venv/bin/python"

PYX = [
    "mlinsights/mlmodel/_piecewise_tree_regression_common.pyx",
    "mlinsights/mlmodel/piecewise_tree_regression_criterion.pyx",
    "mlinsights/mlmodel/piecewise_tree_regression_criterion_fast.pyx",
    "mlinsights/mlmodel/piecewise_tree_regression_criterion_linear.pyx",
    "mlinsights/mlmodel/direct_blas_lapack.pyx",
    "mlinsights/mltree/_tree_digitize.pyx",
]
PXD = ["mlinsights/mlmodel/_piecewise_tree_regression_common.pxd"]

_SETUP = r'''
import sys, os, numpy
from setuptools import setup, Extension
from Cython.Build import cythonize
src = sys.argv.pop(1)
os.chdir(src)
names = [l.strip() for l in open("PYX.txt") if l.strip()]
exts = [Extension(n[:-4].replace("/", "."), [n], include_dirs=[numpy.get_include()],
                  define_macros=[("NPY_NO_DEPRECATED_API", "NPY_1_7_API_VERSION")],
                  extra_compile_args=["-O1", "-w"]) for n in names]
setup(name="mlx", ext_modules=cythonize(exts, nthreads=len(names), quiet=True,
      compiler_directives={"language_level": "3"}, build_dir="c"),
      script_args=["build_ext", "--build-lib", "out", "--build-temp", "tmp", "-j", str(len(names))])
'''


def _versions():
    out = subprocess.run(
        [PY, "-c", "import numpy,sklearn,Cython;print(numpy.__version__,sklearn.__version__,Cython.__version__)"],
        capture_output=True, text=True, check=True).stdout.strip()
    return out


def ext_hash(repo=None):
    repo = repo or REPO
    h = hashlib.sha256()
    for rel in PYX + PXD:
        p = os.path.join(repo, rel)
        h.update(rel.encode())
        with open(p, "rb") as f:
            h.update(f.read())
    h.update(_versions().encode())
    h.update(_SETUP.encode())
    return h.hexdigest()[:16]


def build_ext(repo=None, verbose=False):
    """Build (or reuse) the extensions for the current .pyx sources. Returns the `out` dir."""
    repo = repo or REPO
    hx = ext_hash(repo)
    root = os.path.join(BUILD, "ext-" + hx)
    out = os.path.join(root, "out")
    stamp = os.path.join(root, "OK")
    if os.path.exists(stamp):
        os.utime(root, None)          # in use: keeps it among the most recent ones
        return out
    # one build at a time (concurrent checks - e.g. several scratch worktrees - would remove each other's half-built trees)
    import fcntl
    os.makedirs(BUILD, exist_ok=True)
    with open(os.path.join(BUILD, ".ext.lock"), "w") as lock:
        fcntl.flock(lock, fcntl.LOCK_EX)
        return _build_ext_locked(repo, root, out, stamp, verbose)


def _build_ext_locked(repo, root, out, stamp, verbose):
    if os.path.exists(stamp):
        return out
    if os.path.exists(root):
        shutil.rmtree(root)
    src = os.path.join(root, "src")
    for rel in PYX + PXD:
        dst = os.path.join(src, rel)
        os.makedirs(os.path.dirname(dst), exist_ok=True)
        shutil.copyfile(os.path.join(repo, rel), dst)
    for pkg in ("mlinsights", "mlinsights/mlmodel", "mlinsights/mltree"):
        open(os.path.join(src, pkg, "__init__.py"), "w").close()
    with open(os.path.join(src, "PYX.txt"), "w") as f:
        f.write("\n".join(PYX))
    with open(os.path.join(root, "setup_ext.py"), "w") as f:
        f.write(_SETUP)
    r = subprocess.run([PY, os.path.join(root, "setup_ext.py"), src],
                       capture_output=True, text=True)
    if r.returncode != 0:
        sys.stderr.write(r.stdout[-4000:] + r.stderr[-4000:])
        raise RuntimeError("extension build failed")
    if verbose:
        print(r.stdout[-2000:])
    outreal = os.path.join(src, "out")
    shutil.move(outreal, out)
    shutil.rmtree(src, ignore_errors=True)
    open(stamp, "w").close()
    # drop stale caches: keep the 8 most recent, and nothing that was used in the last two hours
    import time
    olds = sorted((d for d in os.listdir(BUILD) if d.startswith("ext-")),
                  key=lambda d: os.path.getmtime(os.path.join(BUILD, d)))
    for d in olds[:-8]:
        if time.time() - os.path.getmtime(os.path.join(BUILD, d)) > 7200:
            shutil.rmtree(os.path.join(BUILD, d), ignore_errors=True)
    return out


def _shim():
    if "sklearn.utils._joblib" in sys.modules:
        return
    try:
        importlib.import_module("sklearn.utils._joblib")
        return
    except Exception:
        pass
    import joblib
    m = types.ModuleType("sklearn.utils._joblib")
    m.Parallel = joblib.Parallel
    m.delayed = joblib.delayed
    m.joblib = joblib
    sys.modules["sklearn.utils._joblib"] = m


def _load_pkg(name, relpath, extra):
    init = os.path.join(REPO, relpath, "__init__.py")
    locs = [os.path.join(REPO, relpath)] + extra
    spec = importlib.util.spec_from_file_location(name, init, submodule_search_locations=locs)
    mod = importlib.util.module_from_spec(spec)
    sys.modules[name] = mod
    spec.loader.exec_module(mod)
    return mod


_loaded = False


def load(hooks=True, need_ext=True):
    """Make `import mlinsights...` resolve to REPO's working tree (+ out-of-tree .so)."""
    global _loaded
    if _loaded:
        return sys.modules["mlinsights"]
    if hooks:
        os.environ["MLINSIGHTS_VERIF"] = "1"
    os.environ.setdefault("OMP_NUM_THREADS", "1")
    os.environ.setdefault("OPENBLAS_NUM_THREADS", "1")
    import warnings
    warnings.filterwarnings("ignore")
    _shim()
    out = build_ext() if need_ext else None
    for k in [k for k in sys.modules if k == "mlinsights" or k.startswith("mlinsights.")]:
        del sys.modules[k]
    top = _load_pkg("mlinsights", "mlinsights", [])
    if out:
        # sub-packages holding compiled modules get the cache dir on their search path
        for sub in ("mlmodel", "mltree"):
            _load_pkg("mlinsights." + sub, "mlinsights/" + sub,
                      [os.path.join(out, "mlinsights", sub)])
            setattr(top, sub, sys.modules["mlinsights." + sub])
    _loaded = True
    return top


if __name__ == "__main__":
    import time
    t = time.time()
    o = build_ext(verbose="-v" in sys.argv)
    print("ext:", o, "%.1fs" % (time.time() - t))
    load()
    import mlinsights.mlmodel as mm
    import mlinsights.mltree as mt
    print(mm.__file__, mt.__file__)
    from mlinsights.mlmodel import piecewise_tree_regression_criterion as c
    print(c.__file__)
