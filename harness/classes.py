"""Table of the exported estimator classes for the life-cycle properties (C01-C04, C15).

For every class: two differently configured instances (variant 0 / 1), a list of (key, alternative values) that are
*valid* for set_params, the kind of training data it takes, the row-wise methods it offers, which seed makes a fit
deterministic, and inputs on which fit must raise.  Classes whose fit cannot run here because of version drift
(DESIGN 1.2) are listed with fit=None and appear as `skipped` in the evidence."""
import numpy
from . import stubs


def _lr():
    from sklearn.linear_model import LinearRegression
    return LinearRegression()


def _logreg(C=1.0):
    from sklearn.linear_model import LogisticRegression
    return LogisticRegression(C=C, max_iter=200)


def _pipe_clf(C=1.0):
    from sklearn.pipeline import Pipeline
    from sklearn.preprocessing import StandardScaler
    return Pipeline([("sc", StandardScaler()), ("lr", _logreg(C))])


def _warm_logreg():
    from sklearn.linear_model import LogisticRegression
    return LogisticRegression(warm_start=True, max_iter=3)


def _dtr(d=2):
    from sklearn.tree import DecisionTreeRegressor
    return DecisionTreeRegressor(max_depth=d, random_state=0)


def _dtc(d=2):
    from sklearn.tree import DecisionTreeClassifier
    return DecisionTreeClassifier(max_depth=d, random_state=0)


def _kbins(n=3):
    from sklearn.preprocessing import KBinsDiscretizer
    return KBinsDiscretizer(n_bins=n, encode="onehot", strategy="uniform")


def data_labels4(rng, n=None, d=2):
    X, _ = data_reg(rng, n, d)
    labs = [2, 5, 7, 11]
    y = numpy.array([labs[rng.randrange(4)] for _ in range(X.shape[0])])
    y[:4] = labs
    return X, y


def _birch(k=2):
    from sklearn.cluster import Birch
    return Birch(n_clusters=k)


def _km(k=2):
    from sklearn.cluster import KMeans
    return KMeans(n_clusters=k, n_init=2, random_state=0)


# ----------------------------------------------------------------------------- data
def data_reg(rng, n=None, d=2):
    n = n or rng.randint(12, 24)
    X = numpy.array([[rng.randint(0, 9) for _ in range(d)] for _ in range(n)], dtype=numpy.float64)
    y = numpy.array([float(2 * r[0] + r[-1] + rng.randint(0, 3)) for r in X])
    return X, y


def data_pos(rng, n=None, d=2):
    X, y = data_reg(rng, n, d)
    return X + 1.0, y + 1.0


def data_clf(rng, n=None, d=2, labels=(0, 1)):
    n = n or rng.randint(14, 26)
    X = numpy.array([[rng.randint(0, 9) for _ in range(d)] for _ in range(n)], dtype=numpy.float64)
    y = numpy.array([labels[int(r[0] + r[-1] + rng.randint(0, 2) > 9)] for r in X])
    for k, lab in enumerate(labels):
        y[k] = lab
    return X, y


def data_clf3(rng, n=None, d=2):
    n = n or rng.randint(16, 28)
    X = numpy.array([[rng.randint(0, 9) for _ in range(d)] for _ in range(n)], dtype=numpy.float64)
    y = numpy.array([int(r[0] > 3) + int(r[-1] > 5) for r in X])
    y[:3] = [0, 1, 2]
    return X, y


def data_clu(rng, n=None, d=2):
    X, _ = data_reg(rng, n, d)
    return X, None


def data_text(rng, n=None, d=None):
    words = ["aa", "bb", "cc", "dd", "ee"]
    n = n or rng.randint(3, 6)
    docs = [" ".join(rng.choice(words) for _ in range(rng.randint(1, 6))) for _ in range(n)]
    docs[0] = "aa bb cc"
    return numpy.array(docs), None


def data_frame(rng, n=None, d=None):
    import pandas
    n = n or rng.randint(4, 8)
    df = pandas.DataFrame({"c1": pandas.Series([rng.choice(["u", "v", "w"]) for _ in range(n)], dtype=object),
                           "x": [float(rng.randint(0, 5)) for _ in range(n)],
                           "c2": pandas.Series([rng.choice(["p", "q"]) for _ in range(n)], dtype=object)})
    df.loc[0, "c1"], df.loc[1, "c1"], df.loc[2, "c1"] = "u", "v", "w"
    df.loc[0, "c2"], df.loc[1, "c2"] = "p", "q"
    return df, None


def data_ts(rng, n=None, d=None):
    n = n or rng.randint(12, 20)
    y = numpy.array([float(rng.randint(0, 9) + t) for t in range(n)])
    X = numpy.array([[float(rng.randint(0, 5))] for _ in range(n)])
    return X, y


class Entry:
    def __init__(self, name, make, sets, data, methods, seed="none", fit=True, bad=(), rowwise=True, notes="",
                 fit_kw=None, probe=None):
        self.name = name
        self.make = make            # variant -> instance
        self.sets = sets            # [(key, [thunks producing alternative values])]
        self.data = data            # rng -> (X, y)
        self.methods = methods      # row-wise methods
        self.seed = seed            # "none" | "global" | "rs" (an int random_state documented as sufficient)
        self.fit = fit
        self.bad = bad              # [(description, function (X, y) -> (X, y, kwargs) on which fit must raise)]
        self.rowwise = rowwise
        self.notes = notes
        self.fit_kw = fit_kw or {}
        self.probe = probe


def _bad_short_y(X, y):
    return X, (y[:-2] if y is not None else None), {}


def _bad_weights(X, y):
    return X, y, {"sample_weight": numpy.ones((X.shape[0] + 3,))}


def _bad_inf_y(X, y):
    y2 = y.copy()
    y2[0] = numpy.inf
    return X, y2, {}


def _bad_l1_weights(X, y):
    # norm='L1' documents NotImplementedError for non uniform weights
    return X, y, {"sample_weight": numpy.array([1.0 + (i % 2) for i in range(X.shape[0])])}


def _bad_too_few(X, y):
    return X[:1], (y[:1] if y is not None else None), {}


def entries():
    import mlinsights.mlmodel as M
    from mlinsights.sklapi import SkBaseTransformLearner, SkBaseTransformStacking
    from mlinsights.timeseries.ar import ARTimeSeriesRegressor
    from mlinsights.timeseries.dummies import DummyTimeSeriesRegressor
    E = []
    v = lambda *vals: [(lambda x=x: x) for x in vals]
    E.append(Entry("QuantileLinearRegression",
                   lambda k: M.QuantileLinearRegression(quantile=[0.5, 0.25][k], max_iter=[10, 20][k]),
                   [("quantile", v(0.3, 0.7)), ("max_iter", v(5, 15)), ("delta", v(0.001, 0.01)), ("fit_intercept", v(False, True)),
                    ("positive", v(True, False))],
                   data_reg, ["predict"], bad=[("short y", _bad_short_y)]))
    E.append(Entry("KMeansL1L2",
                   lambda k: M.KMeansL1L2(n_clusters=[2, 3][k], norm=["L1", "L2"][k], n_init=2, random_state=[0, 1][k], max_iter=20,
                                          init=["random", "k-means++"][k]),
                   [("n_clusters", v(2, 3)), ("norm", v("L2", "L1")), ("max_iter", v(10, 30)), ("random_state", v(3, 4)), ("init", v("k-means++", "random"))],
                   data_clu, ["predict", "transform"], seed="rs", bad=[("n < k", _bad_too_few)]))
    E.append(Entry("KMeansL1L2[L1,init=array]",
                   lambda k: M.KMeansL1L2(n_clusters=2, norm="L1", n_init=[3, 10][k], max_iter=20,
                                          init=numpy.array([[0.0, 0.0], [9.0, 9.0]]) + k),
                   [("max_iter", v(10, 30)), ("n_init", v(2, 4)), ("tol", v(1e-3, 1e-4))],
                   data_clu, ["predict", "transform"], seed="rs", bad=[("n < k", _bad_too_few), ("weights", _bad_l1_weights)]))
    E.append(Entry("KMeansL1L2[L1,global seed]",
                   # random_state=None: the fit draws from the global NumPy generator, so numpy.random.seed is the seed
                   lambda k: M.KMeansL1L2(n_clusters=[3, 4][k], norm="L1", n_init=1, random_state=None, max_iter=[3, 20][k], init="random"),
                   [("max_iter", v(2, 30)), ("n_clusters", v(3, 4))],
                   lambda rng: data_clu(rng, n=rng.randint(14, 24)), ["predict", "transform"], seed="global", bad=[("n < k", _bad_too_few)]))
    E.append(Entry("ConstraintKMeans[weights]",
                   # (variant 1: random initial labels and many clusters for the data: clusters run empty and are relocated)
                   lambda k: M.ConstraintKMeans(n_clusters=[2, 8][k], strategy="weights", max_iter=[21, 10][k], random_state=[0, 1][k], n_init=2,
                                                kmeans0=[True, False][k]),
                   [("max_iter", v(11, 20)), ("learning_rate", v(0.5, 1.0))],
                   data_clu, ["predict", "transform"], seed="global"))
    E.append(Entry("ConstraintKMeans",
                   lambda k: M.ConstraintKMeans(n_clusters=[2, 3][k], strategy="distance", max_iter=[41, 10][k],
                                                random_state=[0, 1][k], n_init=2, kmeans0=[True, False][k]),
                   [("n_clusters", v(2, 3)), ("max_iter", v(21, 40)), ("balanced_predictions", v(False,)), ("random_state", v(5, 6)),
                    ("kmeans0", v(False, True)), ("learning_rate", v(0.5, 2.0))],
                   data_clu, ["predict", "transform"], seed="global", bad=[("n < k", _bad_too_few)]))
    E.append(Entry("PiecewiseRegressor",
                   lambda k: M.PiecewiseRegressor(binner=_dtr([1, 2][k]), estimator=_lr(), n_jobs=[None, 2][k]),
                   [("binner", [lambda: _dtr(1), lambda: _dtr(3)]), ("binner__max_depth", v(1, 2)), ("estimator", [_lr, lambda: _dtr(1)]),
                    ("n_jobs", v(None, 2)), ("verbose", v(True, False))],
                   data_reg, ["predict"], bad=[("short y", _bad_short_y), ("weights length", _bad_weights)]))
    E.append(Entry("PiecewiseRegressor[bins]",
                   lambda k: M.PiecewiseRegressor(binner=_kbins([3, 4][k]), estimator=_lr()),
                   [("binner__n_bins", v(3, 4)), ("n_jobs", v(None, 2))],
                   data_reg, ["predict"], bad=[("short y", _bad_short_y)]))
    E.append(Entry("PiecewiseClassifier[bins]",
                   lambda k: M.PiecewiseClassifier(binner=_kbins([3, 4][k]), estimator=_dtc(1), random_state=[0, 3][k]),
                   [("binner__n_bins", v(3, 4)), ("random_state", v(1, 2))],
                   data_clf, ["predict", "predict_proba"], seed="rs"))
    E.append(Entry("PiecewiseClassifier",
                   lambda k: M.PiecewiseClassifier(binner=_dtc([1, 2][k]), estimator=_logreg(), random_state=[0, 7][k]),
                   [("binner__max_depth", v(1, 2)), ("estimator__C", v(0.5, 2.0)), ("random_state", v(1, 2)), ("estimator", [_logreg, lambda: _dtc(1)])],
                   data_clf, ["predict", "predict_proba"], seed="rs", bad=[("short y", _bad_short_y)]))
    E.append(Entry("PiecewiseTreeRegressor",
                   lambda k: M.PiecewiseTreeRegressor(criterion=["simple", "mselin"][k], max_depth=[2, 3][k], min_samples_leaf=2),
                   [("criterion", v("mselin", "simple")), ("max_depth", v(1, 3)), ("min_samples_leaf", v(1, 3))],
                   data_reg, ["predict"], bad=[("short y", _bad_short_y), ("weights length", _bad_weights), ("inf in y", _bad_inf_y)]))
    E.append(Entry("DecisionTreeLogisticRegression",
                   lambda k: M.DecisionTreeLogisticRegression(max_depth=[2, 3][k], min_samples_leaf=[2, 3][k], estimator=_logreg()),
                   [("max_depth", v(1, 3)), ("min_samples_leaf", v(1, 2)), ("estimator__C", v(0.5, 2.0)), ("fit_improve_algo", v("none", "auto")),
                    ("gamma", v(0.5, 2.0)), ("p1p2", v(0.1, 0.2))],
                   lambda rng: data_clf(rng, labels=(3, 8)), ["predict", "predict_proba"], bad=[("short y", _bad_short_y)]))
    E.append(Entry("DecisionTreeLogisticRegression[warm]",
                   # a warm-started base model: harmless as long as every node trains a clone of it
                   lambda k: M.DecisionTreeLogisticRegression(max_depth=[1, 2][k], min_samples_leaf=2, estimator=_warm_logreg()),
                   [("max_depth", v(1, 3)), ("estimator__C", v(0.5, 2.0))],
                   lambda rng: data_clf(rng, labels=(3, 8)), ["predict", "predict_proba"]))
    E.append(Entry("PiecewiseRegressor[carry]",
                   lambda k: M.PiecewiseRegressor(binner=_dtr([1, 2][k]), estimator=stubs.CarryReg([1.0, 2.0][k])),
                   [("estimator__shift", v(0.5, 3.0)), ("binner__max_depth", v(1, 2))], data_reg, ["predict"]))
    E.append(Entry("IntervalRegressor[carry]",
                   lambda k: M.IntervalRegressor(estimator=stubs.CarryReg([1.0, 2.0][k]), n_estimators=[2, 3][k]),
                   [("estimator__shift", v(0.5, 3.0)), ("n_estimators", v(2, 4))],
                   data_reg, ["predict", "predict_all", "predict_sorted"], seed="global"))
    E.append(Entry("TransformedTargetRegressor2[carry]",
                   lambda k: M.TransformedTargetRegressor2(regressor=stubs.CarryReg([1.0, 2.0][k]), transformer=["log", "log1p"][k]),
                   [("regressor__shift", v(0.5, 3.0)), ("transformer", v("log1p", "log"))], data_pos, ["predict"]))
    E.append(Entry("IntervalRegressor",
                   lambda k: M.IntervalRegressor(estimator=_lr(), n_estimators=[3, 5][k], alpha=[1.0, 0.5][k]),
                   [("n_estimators", v(2, 4)), ("alpha", v(0.5, 1.5)), ("estimator", [_lr, lambda: _dtr(1)])],
                   # (n_jobs > 1 draws from the global generator inside worker threads: which estimator gets which draw then
                   #  depends on the schedule; thread schedules of this class are the business of C17, not of the table)
                   data_reg, ["predict", "predict_all", "predict_sorted"], seed="global", bad=[("short y", _bad_short_y)]))
    E.append(Entry("ClassifierAfterKMeans",
                   lambda k: M.ClassifierAfterKMeans(estimator=[_logreg(), _dtc(2)][k], clus=_km([2, 3][k])),
                   [("c_n_clusters", v(2, 3)), ("c_n_init", v(1, 3)), ("e_random_state", v(0, 1)),
                    ("clus", [lambda: _km(2), lambda: _birch(2)])],     # (then a clusterer whose fit takes no sample_weight)
                   data_clf, ["predict", "predict_proba"], seed="none", bad=[("short y", _bad_short_y)]))
    E.append(Entry("ClassifierAfterKMeans[L1]",
                   lambda k: M.ClassifierAfterKMeans(estimator=_dtc(2), clus=M.KMeansL1L2(n_clusters=[2, 3][k], norm="L1", n_init=2, random_state=0)),
                   [("c_n_clusters", v(2, 3))], data_clf, ["predict", "predict_proba"], seed="none"))
    E.append(Entry("ClassifierAfterKMeans[defaults]",
                   # no inner model given: each instance creates its own LogisticRegression / KMeans
                   lambda k: M.ClassifierAfterKMeans(c_n_clusters=[2, 3][k], e_max_iter=[200, 300][k]),
                   [("c_n_clusters", v(2, 4)), ("c_n_init", v(1, 3)), ("e_C", v(0.5, 2.0))],
                   data_clf, ["predict", "predict_proba"], seed="none"))
    E.append(Entry("ExtendedFeatures",
                   lambda k: M.ExtendedFeatures(kind=["poly", "poly-slow"][k], poly_degree=[2, 3][k]),
                   [("kind", v("poly-slow", "poly")), ("poly_degree", v(1, 3)), ("poly_interaction_only", v(True, False)), ("poly_include_bias", v(False, True))],
                   data_clu, ["transform"]))
    E.append(Entry("CategoriesToIntegers",
                   lambda k: M.CategoriesToIntegers(columns=["c1", "c2"], single=[False, True][k], skip_errors=[False, True][k]),
                   [("single", v(True, False)), ("skip_errors", v(True, False)), ("remove", v(["c1=u"], None)), ("columns", v(["c1"], ["c1", "c2"]))],
                   data_frame, ["transform"]))
    E.append(Entry("TraceableCountVectorizer",
                   lambda k: M.TraceableCountVectorizer(ngram_range=[(1, 1), (1, 2)][k], binary=[False, True][k]),
                   [("ngram_range", v((1, 2), (2, 2))), ("binary", v(True, False)), ("lowercase", v(False, True)), ("min_df", v(1, 2))],
                   data_text, ["transform"], notes="sparse output"))
    E.append(Entry("TraceableTfidfVectorizer",
                   lambda k: M.TraceableTfidfVectorizer(ngram_range=[(1, 1), (1, 2)][k], sublinear_tf=[False, True][k]),
                   [("ngram_range", v((1, 2), (2, 2))), ("sublinear_tf", v(True, False)), ("norm", v("l1", "l2"))],
                   data_text, ["transform"], notes="sparse output"))
    E.append(Entry("FunctionReciprocalTransformer",
                   lambda k: M.FunctionReciprocalTransformer(["log", "exp"][k]),
                   [("fct", v("log1p", "expm1"))], data_pos, [], rowwise=False))
    E.append(Entry("PermutationReciprocalTransformer",
                   lambda k: M.PermutationReciprocalTransformer(random_state=[0, 5][k]),
                   [("random_state", v(1, 2)), ("closest", v(False,))], data_labels4, [], seed="rs", rowwise=False))
    E.append(Entry("TransformedTargetRegressor2",
                   lambda k: M.TransformedTargetRegressor2(regressor=[_lr(), _dtr(2)][k], transformer=["log", "log1p"][k]),
                   [("transformer", v("log1p", "log")), ("regressor", [_lr, lambda: _dtr(1)]), ("regressor__fit_intercept", v(False, True))],
                   data_pos, ["predict"], bad=[("short y", _bad_short_y)]))
    E.append(Entry("TransformedTargetClassifier2",
                   lambda k: M.TransformedTargetClassifier2(classifier=[_logreg(), _dtc(2)][k],
                                                            transformer=M.PermutationReciprocalTransformer(random_state=[3, 4][k])),
                   [("classifier", [_logreg, lambda: _dtc(1)]), ("transformer__random_state", v(7, 8))],
                   data_clf3, ["predict", "predict_proba"], seed="rs", bad=[("short y", _bad_short_y)]))
    E.append(Entry("TransformedTargetClassifier2[ycol]",
                   # integer labels handed over as an (n, 1) column
                   lambda k: M.TransformedTargetClassifier2(classifier=_dtc([2, 3][k]), transformer="permute"),
                   [("classifier__max_depth", v(1, 3))],
                   lambda rng: (lambda Xy: (Xy[0], Xy[1].reshape((-1, 1)).astype(numpy.int64)))(data_clf3(rng)),
                   ["predict", "predict_proba"], seed="global"))
    E.append(Entry("TransferTransformer",
                   lambda k: M.TransferTransformer(_fitted_lr(k), method="predict", trainable=[False, True][k]),
                   [("trainable", v(True, False)), ("copy_estimator", v(False, True)), ("method", v("predict",))],
                   data_reg, ["transform"]))
    E.append(Entry("ApproximateNMFPredictor",
                   lambda k: M.ApproximateNMFPredictor(n_components=[2, 3][k], force_positive=[False, True][k], random_state=0, max_iter=400, tol=1e-4),
                   [("n_components", v(2, 3)), ("force_positive", v(True, False)), ("random_state", v(1, None, 2)), ("tol", v(1e-3, 1e-4)),
                    ("init", v("nndsvda", None, "nndsvd"))],
                   lambda rng: data_pos(rng, d=4)[:1] + (None,), ["predict"], seed="rs"))
    E.append(Entry("PredictableTSNE",
                   lambda k: M.PredictableTSNE(transformer=stubs.StubEmbedding(), estimator=[_lr(), _dtr(3)][k], normalize=[True, False][k]),
                   [("normalize", v(False, True)), ("estimator", [_lr, lambda: _dtr(2)]), ("keep_tsne_outputs", v(True, False))],
                   data_clf, ["transform"]))
    E.append(Entry("SkBaseTransformLearner",
                   lambda k: SkBaseTransformLearner([_logreg(), _dtc(2)][k], method=["predict_proba", "predict"][k]),
                   [("model__random_state", v(1, 2)), ("method", v("predict", "predict_proba")), ("model", [_logreg, lambda: _dtc(1)])],
                   data_clf, ["transform"]))
    E.append(Entry("SkBaseTransformLearner[containers]",
                   # own keyword parameters whose values are containers (kept by SkLearnParameters, handed back by get_params)
                   lambda k: SkBaseTransformLearner(_logreg(), method="predict_proba", tags=[["a", "b"], []][k], options=[dict(x=1), dict()][k]),
                   [("tags", [lambda: ["c"], lambda: ["a", "b", "c"]]), ("options", [lambda: dict(y=2), lambda: dict(x=1, y=[1, 2])])],
                   data_clf, ["transform"]))
    E.append(Entry("SkBaseTransformLearner[nested]",
                   lambda k: SkBaseTransformLearner(_pipe_clf([1.0, 0.5][k]), method=["predict_proba", "predict"][k]),
                   [("model__lr__C", v(0.25, 2.0)), ("model__sc__with_mean", v(False, True))],
                   # (model__lr itself is not reconfigured: a Pipeline rewrites its own `steps` key when a step is replaced)
                   data_clf, ["transform"]))
    E.append(Entry("SkBaseTransformStacking",
                   lambda k: SkBaseTransformStacking([[_logreg(), _dtc(2)], [_dtc(1), _logreg(), _dtc(3)]][k], method=["predict_proba", "predict"][k]),
                   [("models_0__model__random_state", v(1, 2)), ("models_1__model__random_state", v(3, 4)), ("method", v("predict",))],
                   data_clf, ["transform"]))
    E.append(Entry("SkBaseTransformStacking[11]",
                   lambda k: SkBaseTransformStacking([_dtc(1 + (j % 3)) for j in range(11 + k)], method="predict"),
                   [("models_10__model__max_depth", v(2, 4)), ("models_3__model__max_depth", v(2, 4))],
                   data_clf, ["transform"]))
    E.append(Entry("DummyTimeSeriesRegressor",
                   lambda k: DummyTimeSeriesRegressor(past=[1, 2][k], delay2=[2, 3][k]),
                   [("past", v(2, 3)), ("delay2", v(3, 2))], data_ts, [], rowwise=False))
    E.append(Entry("ARTimeSeriesRegressor",
                   lambda k: ARTimeSeriesRegressor(estimator=[_lr(), _dtr(2)][k], past=[2, 3][k]),
                   [("past", v(1, 3)), ("estimator", [_lr, lambda: _dtr(1)])], data_ts, [], rowwise=False))
    # QuantileMLPRegressor: its constructor fails on the installed scikit-learn (MLPRegressor signature drift): not exercised
    return E


def _fitted_lr(k):
    from sklearn.linear_model import LinearRegression
    X = numpy.array([[0.0, 1.0], [1.0, 3.0], [2.0, 2.0], [5.0, 1.0]])
    y = numpy.array([1.0, 4.0, 5.0, 7.0 + k])
    return LinearRegression().fit(X, y)
