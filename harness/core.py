"""Common run context of every check: violations vs known findings, evidence, exit codes.

Exit codes (DESIGN 2.5): 0 held (possibly KNOWN-FINDING lines) / 1 VIOLATION / 2 machinery failure.
"""
import hashlib
import json
import os
import random
import sys
import time
import traceback

VERIF = os.path.dirname(os.path.dirname(os.path.abspath(__file__)))
EVID = os.environ.get("VERIF_EVIDENCE_DIR") or os.path.join(VERIF, "evidence")
REPLAYS = os.environ.get("VERIF_REPLAY_DIR") or os.path.join(VERIF, "replays")
FINDINGS = os.path.join(VERIF, "known_findings.json")


def canon(o):
    return json.dumps(o, sort_keys=True, separators=(",", ":"), default=str)


def load_findings():
    if not os.path.exists(FINDINGS):
        return []
    with open(FINDINGS) as f:
        return json.load(f)["findings"]


class Ctx:
    def __init__(self, prop, tier="quick", seed=0, level="model_checking"):
        self.prop = prop
        self.tier = tier
        self.seed = seed
        self.level = level
        self.rng = random.Random(seed * 7919 + sum(map(ord, prop)))
        self.t0 = time.time()
        self.violations = []       # dicts
        self.known_hits = {}       # finding key -> count
        self.states = 0
        self.transitions = 0
        self.mc_runs = []          # per-run summaries
        self.traces = 0            # S2C cases replayed + C2S traces validated
        self.evaluations = 0
        self._distinct = set()
        self.samples = []
        self.rule = ""
        self.assumptions = []
        self.skipped = []
        self.exhaustive = None
        self.extra = {}
        self.notes = []
        self.drift = {}            # (what, site) -> count: the code no longer follows the MODELLED mechanism, the property holds
        self._open = [f for f in load_findings()
                      if f.get("status") == "open" and f.get("property") == prop]

    # ---------------------------------------------------------------- bookkeeping
    def add_mc(self, name, res, expect_violation=None):
        """Record a TLC model-checking run. expect_violation: name of the property a negative
        (DEV_* = TRUE) run must violate."""
        from .tlc import TLCError
        if expect_violation is None:
            if res.error or (not res.ok and res.violated is None):
                raise TLCError("%s: TLC failed: %s\n%s" % (name, res.error, res.stdout[-3000:]))
        else:
            if res.violated is None:
                raise TLCError("%s: negative run found no violation (vacuous model?)\n%s"
                               % (name, res.stdout[-1500:]))
        self.states += res.distinct
        self.transitions += res.generated
        s = res.summary()
        s["name"] = name
        if res.coverage:
            s["actions"] = {k: v[1] for k, v in sorted(res.coverage.items())}
        self.mc_runs.append(s)
        return res

    def require_coverage(self, res, actions, name=""):
        """An action of the model that is never taken means the property was never exercised:
        that is a broken check (exit 2), not a pass."""
        from .tlc import TLCError
        dead = [a for a in actions if res.coverage.get(a, (0, 0))[1] == 0]
        if dead:
            raise TLCError("%s: actions never taken in the model: %s" % (name, dead))

    def case(self, key, nontrivial=True, sample=None):
        """Count one explored case; `key` identifies it up to the abstraction."""
        self.evaluations += 1
        if nontrivial:
            k = hashlib.sha1(canon(key).encode()).hexdigest()
            if k not in self._distinct:
                self._distinct.add(k)
                if sample is not None and len(self.samples) < 3:
                    self.samples.append(sample)

    # ---------------------------------------------------------------- verdicts
    def violation(self, clause, site, signature, detail, case=None):
        """Report that the implementation broke `clause` at `site`; `signature` names the failing
        input class / history.  Matched against the open known findings; anything else is a
        VIOLATION."""
        for f in self._open:
            if f["clause"] == clause and f["site"] == site and f["signature"] == signature:
                k = (clause, site, signature)
                self.known_hits.setdefault(k, {"n": 0, "what": f.get("what", ""), "example": detail})
                self.known_hits[k]["n"] += 1
                return False
        key = (clause, site, signature)
        for v in self.violations:
            if (v["clause"], v["site"], v["signature"]) == key:
                v["count"] += 1
                return True
        os.makedirs(REPLAYS, exist_ok=True)
        body = dict(property=self.prop, clause=clause, site=site, signature=signature,
                    detail=detail, case=case, seed=self.seed, tier=self.tier)
        h = hashlib.sha1(canon(body).encode()).hexdigest()[:10]
        path = os.path.join(REPLAYS, "%s-%s.json" % (self.prop, h))
        with open(path, "w") as f:
            json.dump(body, f, indent=1, default=str)
        body["replay"] = path
        body["count"] = 1
        self.violations.append(body)
        return True

    def verdicts(self, verdicts, traces_by_id, site, classify=None):
        """Turn trace verdicts into violations. classify(trace, verdict) -> (clause, signature)."""
        for tid, v in verdicts.items():
            self.traces += 1
            if v.ok:
                continue
            t = traces_by_id[tid]
            if classify:
                clause, sig = classify(t, v)
            else:
                clause = v.fails[0][0] if v.fails else "NotABehaviour"
                sig = t.get("sig", "")
            self.violation(clause, t.get("site", site), sig, v.describe(), case=t)

    def model_drift(self, what, site, detail=""):
        """The implementation does something the mechanism-level model does not describe, while every clause of the
        property itself was decided on the same run and holds: not a violation (a correct change of the algorithm must
        not raise an alarm), but the specification has to be brought up to date - reported as MODEL-DRIFT, exit code
        unchanged."""
        d = self.drift.setdefault((what, site), dict(n=0, detail=str(detail)[:400]))
        d["n"] += 1

    # ---------------------------------------------------------------- finish
    def finish(self):
        wall = time.time() - self.t0
        cov = dict(states=max(self.states, 0), transitions=max(self.transitions, 0),
                   traces_validated_against_impl=self.traces,
                   evaluations=self.evaluations, distinct_nontrivial=len(self._distinct),
                   rule=self.rule, samples=self.samples[:3] or ["(none)"],
                   exhaustive=bool(self.exhaustive), mc_runs=self.mc_runs,
                   known_findings_hit=[dict(clause=k[0], site=k[1], signature=k[2], n=v["n"])
                                       for k, v in self.known_hits.items()],
                   skipped=self.skipped)
        cov.update(self.extra)
        if self.drift:
            cov["model_drift"] = [dict(what=k[0], site=k[1], n=v["n"], detail=v["detail"]) for k, v in self.drift.items()]
        ev = dict(property_id=self.prop, tier=self.tier, seed=self.seed, level=self.level,
                  coverage=cov, assumptions=self.assumptions, wall_s=round(wall, 2),
                  violations=len(self.violations))
        os.makedirs(EVID, exist_ok=True)
        with open(os.path.join(EVID, self.prop + ".json"), "w") as f:
            json.dump(ev, f, indent=1, default=str)
        for k, v in self.known_hits.items():
            print("KNOWN-FINDING: property=%s clause=%s site=%s signature=%s hits=%d :: %s"
                  % (self.prop, k[0], k[1], k[2], v["n"], v["what"]))
        for k, v in self.drift.items():
            print("MODEL-DRIFT: property=%s %s site=%s n=%d (the property was decided on the same runs and holds; the "
                  "mechanism model needs an update) :: %s" % (self.prop, k[0], k[1], v["n"], v["detail"][:200]))
        for v in self.violations:
            print("VIOLATION property=%s replay=%s" % (self.prop, v["replay"]))
            print("  clause=%s site=%s signature=%s count=%d\n  detail=%s"
                  % (v["clause"], v["site"], v["signature"], v["count"], str(v["detail"])[:600]))
        print("%s %s: states=%d transitions=%d traces=%d cases=%d distinct=%d wall=%.1fs -> %s"
              % (self.prop, self.tier, self.states, self.transitions, self.traces, self.evaluations,
                 len(self._distinct), wall, "VIOLATION" if self.violations else "ok"))
        return 1 if self.violations else 0


def main(prop, run, argv=None, level="model_checking"):
    import argparse
    ap = argparse.ArgumentParser()
    ap.add_argument("--tier", default=os.environ.get("VERIF_TIER", "quick"))
    ap.add_argument("--replay", default=None)
    a = ap.parse_args(argv)
    seed = int(os.environ.get("VERIF_SEED", "0") or 0)
    tier = a.tier if a.tier in ("quick", "thorough") else "quick"
    ctx = Ctx(prop, tier, seed, level)
    try:
        if a.replay:
            with open(a.replay) as f:
                ctx.replay = json.load(f)
        else:
            ctx.replay = None
        run(ctx)
        return ctx.finish()
    except SystemExit:
        raise
    except Exception as e:
        # An exception that comes out of the library itself (a frame of the traceback is a file of the repository under
        # test) while the harness was making a call the property says must work is a violation, not a machinery failure.
        repo = os.path.realpath(os.environ.get("VERIF_REPO", "/repo"))
        frames = traceback.extract_tb(e.__traceback__)
        lib = [f for f in frames if os.path.realpath(f.filename).startswith(repo + os.sep)]
        from .tlc import TLCError
        if lib and not isinstance(e, TLCError):
            traceback.print_exc()
            last = lib[-1]
            ctx.violation("CallSucceeds", os.path.relpath(os.path.realpath(last.filename), repo) + ":" + last.name,
                          type(e).__name__, repr(e)[:300])
            return ctx.finish()
        traceback.print_exc()
        print("MACHINERY-FAILURE property=%s (exit 2)" % prop)
        return 2
