"""Growth beyond the listed properties: mlbatch.MLCache against spec/MLCache.tla (./check X-MLCache).
Not registered in MANIFEST.json (no listed property covers it); exit 0 / 1 / 2 as the other checks, evidence in
/verif/evidence/X-MLCache.json."""
import importlib.util
import os
import numpy
from .. import boot, tlc
from ..core import main


def load_cache_module():
    # mlinsights.mlbatch imports pipeline_cache, which is broken by version drift: load cache_model.py on its own
    path = os.path.join(boot.REPO, "mlinsights", "mlbatch", "cache_model.py")
    spec = importlib.util.spec_from_file_location("verif_cache_model", path)
    mod = importlib.util.module_from_spec(spec)
    spec.loader.exec_module(mod)
    return mod


PARAMS = {"k1": dict(a=1, b="x"), "k2": dict(a=2, b="x"), "k3": dict(a=1, b="y", c=None), "k4": dict(a=1.5),
          "k5": dict(arr=numpy.array([1.0, 2.0])), "k6": dict(arr=numpy.array([1.0, 3.0])), "k7": "plain-string-key"}


def one(tid, rng, M):
    for n in list(M._caches):
        M.MLCache.remove_cache(n)
    names = ["a", "b", "c"]
    ev = []
    for _ in range(rng.randint(5, 30)):
        op = rng.choice(["create", "remove", "has", "cache", "cache", "get", "get", "get", "count", "len"])
        n = rng.choice(names)
        k = rng.choice(sorted(PARAMS))
        e = dict(a=op, n=n, k=k, v="")
        try:
            if op == "create":
                M.MLCache.create_cache(n)
                e["out"] = ["ok", "create"]
            elif op == "remove":
                M.MLCache.remove_cache(n)
                e["out"] = ["ok", "remove"]
            elif op == "has":
                e["out"] = ["ok", "has", bool(M.MLCache.has_cache(n))]
            else:
                if not M.MLCache.has_cache(n):
                    continue                      # the specification's actions on a cache need the cache
                c = M.MLCache.get_cache(n)
                if op == "cache":
                    e["v"] = "v%d" % rng.randint(1, 4)
                    c.cache(PARAMS[k], e["v"])
                    e["out"] = ["ok", "cache"]
                elif op == "get":
                    r = c.get(PARAMS[k])
                    e["out"] = ["ok", "get", "none" if r is None else r]
                elif op == "count":
                    e["out"] = ["ok", "count", int(c.count(PARAMS[k]))]
                else:
                    e["out"] = ["ok", "len", len(c)]
        except (AssertionError, KeyError):
            e["out"] = ["raise", op]
        ev.append(e)
    return dict(id=tid, ev=ev, site="mlbatch.MLCache", sig="history")


def run(ctx):
    boot.load(need_ext=False)
    M = load_cache_module()
    ctx.add_mc("MLCache", tlc.run("MC_MLCache", "SPECIFICATION Spec\nCONSTANTS Names <- MCNames\n Keys <- MCKeys\n Values <- MCValues\n"
                                  "INVARIANT CountsMatchStore\nPROPERTY ValuesStable\nPROPERTY CountsMonotone\nCONSTRAINT Bounded\n",
                                  workers=8, coverage=True))
    rng = ctx.rng
    traces = []
    for k in range(600 if ctx.tier == "thorough" else 150):
        t = one(k + 1, rng, M)
        ctx.case(str(t["ev"]), sample=dict(kind="history", ev=t["ev"][:5]))
        traces.append(t)
    verdicts, st = tlc.validate("MLCacheTrace", "MLCacheTrace.cfg", traces)
    ctx.states += st["states"]
    ctx.transitions += st["transitions"]
    ctx.verdicts(verdicts, {t["id"]: t for t in traces}, "mlbatch.MLCache")
    ctx.rule = "random histories of create / remove / has / cache / get / count / len on up to 3 caches and 7 parameter sets"
    ctx.extra["note"] = "growth beyond the 20 listed properties; not registered in MANIFEST.json"


if __name__ == "__main__":
    raise SystemExit(main("X-MLCache", run))
