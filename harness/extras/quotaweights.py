"""Growth beyond the listed properties: the control flow of ConstraintKMeans(strategy='weights').fit against
spec/QuotaWeights.tla (./check X-QuotaWeights).  C07 only promises valid labels, finite centres and the iteration bound
for this strategy (checked there); here the loop itself is bound: reset rule, best-so-far bookkeeping, early stop, what
is stored.  No hook: the module-level helpers of _kmeans_constraint_ are wrapped.  Not registered in MANIFEST.json."""
import numpy
from .. import boot, tlc
from ..core import main

SITE = "ConstraintKMeans strategy=weights (loop)"


class Wrap:
    def __init__(self, mod, **repl):
        self.mod, self.repl, self.orig = mod, repl, {}

    def __enter__(self):
        for k, f in self.repl.items():
            self.orig[k] = getattr(self.mod, k)
            setattr(self.mod, k, f(self.orig[k]))
        return self

    def __exit__(self, *a):
        for k, f in self.orig.items():
            setattr(self.mod, k, f)


def one(tid, rng):
    from mlinsights.mlmodel import ConstraintKMeans
    from mlinsights.mlmodel import _kmeans_constraint_ as M
    k = rng.randint(1, 5)
    n = rng.randint(k, 24)
    d = rng.randint(1, 3)
    R = rng.choice([1, 2, 6])
    X = numpy.array([[rng.randint(0, R) for _ in range(d)] for _ in range(n)], dtype=numpy.float64)
    max_iter = rng.choice([2, 5, 8, 12, 12, 20])
    kmeans0 = rng.random() < 0.5
    passes, cur, info = [], {}, {}

    def w_loop(orig):
        def f(X_, labels, sample_weight, centers, inertia, it, max_iter_, **kw):
            info.update(start=int(it), max_iter=int(max_iter_))
            return orig(X_, labels, sample_weight, centers, inertia, it, max_iter_, **kw)
        return f

    def w_centers(orig):
        def f(*a, **kw):
            out = orig(*a, **kw)
            cur.clear()
            cur.update(calls=[], centers=numpy.array(out, copy=True))
            return out
        return f

    def w_assoc(orig):
        def f(X_, centers, sw, weights):
            out = orig(X_, centers, sw, weights)
            cur["calls"].append(dict(used=bool(len(set(int(v) for v in out)) == centers.shape[0]), ones=bool(numpy.all(weights == 1))))
            cur["labels"], cur["weights"] = numpy.array(out, copy=True), numpy.array(weights, copy=True)
            return out
        return f

    def w_inertia(orig):
        def f(X_, centers, sw, weights, labels, total):
            inertia, diff = orig(X_, centers, sw, weights, labels, total)
            passes.append(dict(calls=list(cur["calls"]), inertia=float(inertia), bal=bool(numpy.abs(diff).sum() <= weights.shape[0] / 2),
                               labels=cur["labels"], weights=cur["weights"], centers=cur["centers"]))
            return inertia, diff
        return f

    km = ConstraintKMeans(n_clusters=k, strategy="weights", kmeans0=kmeans0, random_state=rng.randint(0, 999), max_iter=max_iter,
                          n_init=2, learning_rate=rng.choice([0.5, 1.0, 2.0]))
    t = dict(id=tid, site=SITE, sig="kmeans0=%s max_iter=%d" % (kmeans0, max_iter), max_iter=max_iter, ev=[])
    with Wrap(M, _constraint_kmeans_weights=w_loop, _centers_dense=w_centers, _constraint_association_weights=w_assoc,
              _labels_inertia_weights=w_inertia):
        try:
            km.fit(X)
        except Exception as e:
            t["raised"] = repr(e)[:200]
            t["case"] = dict(X=X.tolist(), k=k, kmeans0=kmeans0, max_iter=max_iter)
            return t
    t["start"] = info["start"]
    ranks = {v: r for r, v in enumerate(sorted(set(p["inertia"] for p in passes)))}
    for p in passes:
        t["ev"].append(dict(a="iter", calls=p["calls"], v=ranks[p["inertia"]], bal=p["bal"]))
    matches = [info["start"] + j for j, p in enumerate(passes)
               if numpy.array_equal(p["labels"], km.labels_) and numpy.array_equal(p["weights"], km.weights_)
               and numpy.array_equal(p["centers"], km.cluster_centers_)]
    t["ev"].append(dict(a="ret", v=ranks.get(float(km.inertia_), -1) if passes else -1, n_iter=int(km.n_iter_), matches=matches))
    return t


def classify(t, v):
    return (v.fails[0][0] if v.fails else "NotABehaviour"), t.get("sig", "")


def run(ctx):
    boot.load()
    thorough = ctx.tier == "thorough"
    base = "SPECIFICATION FairSpec\nCONSTANTS MaxIter = %d\n Starts = {0, 2, %d}\n Vals = {1, 2, 3}\n" % ((11, 11) if thorough else (9, 9))
    invs = "".join("INVARIANT %s\n" % i for i in ("NIterBound", "ReturnsTheBest", "NothingToReturn", "StopOnlyWhenStale", "NIterCountsPasses"))
    r = ctx.add_mc("QuotaWeights", tlc.run("QuotaWeights", base + " DEV_KeepLast = FALSE\n" + invs + "PROPERTY Terminates\n",
                                            workers=16, coverage=True, timeout=3000))
    ctx.require_coverage(r, ["Iterate", "Return"], "QuotaWeights")
    ctx.add_mc("QuotaWeights[DEV_KeepLast]", tlc.run(
        "QuotaWeights", "SPECIFICATION Spec\nCONSTANTS MaxIter = 3\n Starts = {0}\n Vals = {1, 2}\n DEV_KeepLast = TRUE\nINVARIANT ReturnsTheBest\n",
        workers=2), expect_violation="ReturnsTheBest")
    rng = ctx.rng
    groups = {}
    for k in range(1200 if thorough else 200):
        t = one(k + 1, rng)
        if "raised" in t:
            ctx.violation("CallSucceeds", SITE, t["sig"], t["raised"], case=t["case"])
            continue
        ctx.case(str(t["ev"]) + t["sig"], nontrivial=len(t["ev"]) >= 4, sample=dict(kind="c2s", sig=t["sig"], start=t["start"], ev=t["ev"][:3] + t["ev"][-1:]))
        groups.setdefault(t["max_iter"], []).append(t)
    for mi, trs in sorted(groups.items()):
        cfg = ("SPECIFICATION TSpec\nCONSTANTS MaxIter = %d\n Starts = {}\n Vals = {}\n DEV_KeepLast = FALSE\nCHECK_DEADLOCK FALSE\n" % mi)
        verdicts, st = tlc.validate("QuotaWeightsTrace", cfg, trs)
        ctx.states += st["states"]
        ctx.transitions += st["transitions"]
        ctx.verdicts(verdicts, {t["id"]: t for t in trs}, SITE, classify=classify)
        ctx.extra.setdefault("trace_runs", []).append(dict(spec="QuotaWeightsTrace", max_iter=mi, traces=len(trs), **st))
    ctx.exhaustive = False
    ctx.rule = ("MC: every sequence of (inertia in 3 values, balanced or not) up to max_iter passes from 3 starting counters: "
                "the first minimum is returned, the loop stops only when stale, and it terminates. C2S: seeded fits (n<=24, k<=5, "
                "1-3 dimensions, kmeans0 or random labels, max_iter in {2,5,8,12,20}) with the module-level helpers wrapped: every "
                "pass (association calls, inertia rank, balance flag) and the stored result are validated by QuotaWeightsTrace.")
    ctx.extra["note"] = "growth beyond the 20 listed properties; not registered in MANIFEST.json"


if __name__ == "__main__":
    raise SystemExit(main("X-QuotaWeights", run))
