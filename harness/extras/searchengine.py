"""Growth beyond the listed properties: search_rank.SearchEngineVectors / SearchEnginePredictions against
spec/SearchEngine.tla (./check X-SearchEngine).  Histories of public calls (fit in its three forms - arrays, data frame,
iterator of (vector, dict) -, malformed fits, kneighbors with lists / arrays, with and without n_neighbors, before any
fit and for more neighbours than vectors) are validated by SearchEngineTrace; the model itself is checked by TLC.
`to_zip` / `read_zip` need pandas_streaming, which this sandbox does not have: the import is stubbed and those two
methods are not exercised.  Not registered in MANIFEST.json."""
import sys
import types
import warnings
import numpy
import pandas
from .. import boot, tlc
from ..core import main

SITE = "search_rank.SearchEngineVectors/Predictions"
LAB = ["u", "v", "w", "z"]


def load():
    boot.load()
    if "pandas_streaming" not in sys.modules:
        try:
            import pandas_streaming.df  # noqa: F401
        except ImportError:
            def _no(*a, **k):
                raise NotImplementedError("pandas_streaming is not installed in this sandbox")
            ps, df = types.ModuleType("pandas_streaming"), types.ModuleType("pandas_streaming.df")
            df.to_zip = df.read_zip = _no
            ps.df = df
            sys.modules["pandas_streaming"], sys.modules["pandas_streaming.df"] = ps, df
    from mlinsights.search_rank import SearchEngineVectors, SearchEnginePredictions
    return SearchEngineVectors, SearchEnginePredictions


def featurizer(name):
    """f(vec, many): many=True receives the whole table (array or frame), many=False one vector (list or array)."""
    def f(v, many):
        a = numpy.asarray(v.values if hasattr(v, "values") else v, dtype=numpy.float64)
        if name == "double":
            return a * 2
        if name == "proj":
            b = a.copy()
            b[..., 1] = 0
            return b
        if name == "swap":
            return a[..., ::-1].copy()
        return a
    return f


def F(name, p):
    return {"id": p, "double": [2 * p[0], 2 * p[1]], "proj": [p[0], 0], "swap": [p[1], p[0]]}[name]


def as_int(v, what):
    r = int(round(float(v)))
    if abs(float(v) - r) > 1e-6:
        raise ValueError("%s is not an integer: %r" % (what, v))
    return r


def labels_of(rmeta):
    if rmeta is None:
        return []
    if hasattr(rmeta, "iloc"):
        return [str(x) for x in rmeta["lab"].tolist()]
    a = numpy.asarray(rmeta)
    return [str(x) for x in (a if a.ndim == 1 else a[:, 0]).tolist()]


def read_store(eng):
    if not hasattr(eng, "knn_"):
        return dict(a="store", fitted=False, pop=[], ms=[])
    f = eng.features_
    a = numpy.asarray(f.values if hasattr(f, "values") else f)
    m = eng.metadata_
    ms = [] if m is None else labels_of(m)
    return dict(a="store", fitted=True, pop=[[as_int(x, "feature") for x in r] for r in a], ms=ms)


def do_fit(eng, rng, pts, ms, fct):
    """One well-formed fit in a form chosen at random; returns the form used."""
    arr = numpy.array(pts, dtype=rng.choice([numpy.float64, numpy.float32, numpy.int64]))
    forms = ["array", "frame", "iter"]
    form = rng.choice(forms)
    if form == "array":
        if not ms:
            meta = None
        else:
            kind = rng.choice(["1d", "2d", "frame"])
            meta = (numpy.array(ms) if kind == "1d" else numpy.array([[m, "pad"] for m in ms]) if kind == "2d"
                    else pandas.DataFrame(dict(lab=ms, pos=list(range(len(ms))))))
        eng.fit(features=arr, metadata=meta)
    elif form == "frame":
        cols = dict(fa=arr[:, 0], fb=arr[:, 1])
        if ms:
            cols["lab"] = ms
            cols["pos"] = list(range(len(ms)))
        df = pandas.DataFrame(cols)
        if rng.random() < 0.5:
            df.index = [rng.randint(0, 3) for _ in range(len(df))]      # repeated, unordered index labels
        eng.fit(data=df, features=["fa", "fb"], metadata=["lab", "pos"] if ms else None)
    else:
        if not ms:
            # the iterator form always carries a dict: an empty metadata table is still a table
            return do_fit_iter(eng, arr, None)
        return do_fit_iter(eng, arr, ms)
    return form


def do_fit_iter(eng, arr, ms):
    def it():
        for i in range(arr.shape[0]):
            yield arr[i].astype(numpy.float64), (dict(lab=ms[i], pos=i) if ms else dict(lab="u", pos=i))
    eng.fit(data=it())
    return "iter"


BAD = ["iter+features", "iter+metadata", "iter-nontuple", "iter-triple", "iter-nondict", "array-list", "data-list"]


def do_badfit(eng, rng, what):
    arr = numpy.array([[0.0, 1.0], [1.0, 1.0]])
    good = lambda: iter([(arr[0], dict(lab="u")), (arr[1], dict(lab="v"))])   # noqa: E731
    if what == "iter+features":
        eng.fit(data=good(), features=arr)
    elif what == "iter+metadata":
        eng.fit(data=good(), metadata=numpy.array(["u", "v"]))
    elif what == "iter-nontuple":
        eng.fit(data=iter([[arr[0], dict(lab="u")]]))
    elif what == "iter-triple":
        eng.fit(data=iter([(arr[0], dict(lab="u"), 1)]))
    elif what == "iter-nondict":
        eng.fit(data=iter([(arr[0], "u")]))
    elif what == "array-list":
        eng.fit(features=[[0.0, 1.0], [1.0, 1.0]])
    else:
        eng.fit(data=[[0.0, 1.0], [1.0, 1.0]], features=[0, 1])


def one(tid, rng, classes, metric, fct):
    Vec, Pred = classes
    R = rng.choice([1, 2, 3, 6])
    pknn = {}
    if metric == "l1":
        pknn["metric"] = rng.choice(["manhattan", "cityblock", "l1"])
    elif rng.random() < 0.5:
        pknn["metric"] = rng.choice(["euclidean", "minkowski", "l2"])
    if rng.random() < 0.5:
        pknn["algorithm"] = rng.choice(["brute", "kd_tree", "ball_tree", "auto"])
    default_k = 5
    if rng.random() < 0.6:
        default_k = pknn["n_neighbors"] = rng.randint(1, 4)
    eng = Vec(**pknn) if fct == "id" and rng.random() < 0.7 else Pred(featurizer(fct), **pknn)
    is_pred = isinstance(eng, Pred)
    ev = []
    n = 0
    for step in range(rng.randint(3, 14)):
        op = rng.choice(["fit", "query", "query", "query", "query", "badfit", "store"])
        if step == 0 and rng.random() < 0.85:
            op = "fit"
        if op == "fit":
            n_new = rng.randint(1, 9)
            pts = [[rng.randint(0, R), rng.randint(0, R)] for _ in range(n_new)]
            ms = [rng.choice(LAB) for _ in range(n_new)] if rng.random() < 0.7 else []
            e = dict(a="fit", pts=pts, ms=ms, ok=True, err="")
            try:
                with warnings.catch_warnings():
                    warnings.simplefilter("ignore")
                    e["form"] = do_fit(eng, rng, pts, ms, fct)
                if e["form"] == "iter" and not ms:
                    e["ms"] = ["u"] * n_new
                n = n_new
            except Exception as exc:          # noqa: BLE001
                e["ok"], e["err"] = False, "%s: %s" % (type(exc).__name__, str(exc)[:200])
            ev.append(e)
        elif op == "badfit":
            what = rng.choice(BAD)
            e = dict(a="badfit", what=what, raised=False)
            try:
                with warnings.catch_warnings():
                    warnings.simplefilter("ignore")
                    do_badfit(eng, rng, what)
            except (TypeError, ValueError):
                e["raised"] = True
            except Exception as exc:          # noqa: BLE001
                e["raised"], e["other"] = True, type(exc).__name__
            ev.append(e)
        elif op == "store":
            try:
                ev.append(read_store(eng))
            except ValueError as exc:
                ev.append(dict(a="store", fitted=True, pop=[], ms=[], err=str(exc)))
        else:
            x = [rng.randint(-1, R + 1), rng.randint(-1, R + 1)]
            given = rng.choice([None, None, 1, 2, 3, n, n + 1, max(n - 1, 1)])
            k = default_k if given is None else given
            shape = rng.choice(["list", "row", "vec"] if is_pred else ["list", "row"])
            X = list(map(float, x)) if shape == "list" else numpy.array([x], dtype=numpy.float64) if shape == "row" \
                else numpy.array(x, dtype=numpy.float64)
            e = dict(a="query", x=x, k=k, out="ok", ind=[], dist=[], meta=[], err="", shape=shape)
            try:
                with warnings.catch_warnings():
                    warnings.simplefilter("ignore")
                    score, ind, rmeta = eng.kneighbors(X) if given is None else eng.kneighbors(X, n_neighbors=given)
                e["ind"] = [int(i) for i in numpy.asarray(ind).ravel()]
                d = numpy.asarray(score, dtype=numpy.float64).ravel()
                e["dist"] = [as_int(v if metric == "l1" else v * v, "distance") for v in d]
                e["meta"] = labels_of(rmeta)
            except Exception as exc:          # noqa: BLE001
                e["out"], e["err"] = "raise", "%s: %s" % (type(exc).__name__, str(exc)[:200])
            ev.append(e)
            if rng.random() < 0.3:
                ev.append(read_store(eng))
    return dict(id=tid, ev=ev, site=SITE, sig="%s/%s/%s" % (type(eng).__name__, metric, fct), metric=metric, fct=fct)


def run(ctx):
    classes = load()
    thorough = ctx.tier == "thorough"
    invs = "".join("INVARIANT %s\n" % i for i in ("DistancesDetermined", "AnswerExists", "PrefixConsistent", "SelfIsNearest",
                                                  "MetaFollowsInd", "KthIsThreshold")) + "PROPERTY ReadOnly\n"
    combos = [("l1", "id"), ("l2", "id"), ("l1", "proj"), ("l2", "double"), ("l2", "swap")] if thorough else [("l1", "id"), ("l2", "proj")]
    for met, f in combos:
        cfg = ("SPECIFICATION Spec\nCONSTANTS Coord <- %s\n Labels <- MCLabels\n MaxN = %d\n Metric = \"%s\"\n Fct = \"%s\"\n"
               " DEV_NoFarther = FALSE\n" % ("MCCoord" if thorough else "MCCoord3", 3 if thorough else 2, met, f)) + invs
        r = ctx.add_mc("SearchEngine[%s,%s]" % (met, f), tlc.run("MC_SearchEngine", cfg, workers=16, coverage=True, timeout=1500))
        ctx.require_coverage(r, ["Fit", "Query", "QueryRaises", "FitRaises"], "SearchEngine")
    ctx.add_mc("SearchEngine[DEV_NoFarther]", tlc.run(
        "MC_SearchEngine", "SPECIFICATION Spec\nCONSTANTS Coord <- MCCoord\n Labels <- MCLabels\n MaxN = 2\n Metric = \"l1\"\n Fct = \"id\"\n"
        " DEV_NoFarther = TRUE\nINVARIANT DistancesDetermined\n", workers=2), expect_violation="DistancesDetermined")
    rng = ctx.rng
    groups = {}
    for k in range(2400 if thorough else 400):
        met = rng.choice(["l1", "l2"])
        f = rng.choice(["id", "id", "double", "proj", "swap"])
        t = one(k + 1, rng, classes, met, f)
        ctx.case(str(t["ev"]) + t["sig"], nontrivial=sum(1 for e in t["ev"] if e["a"] == "query" and e["out"] == "ok") >= 1,
                 sample=dict(kind="c2s", sig=t["sig"], ev=t["ev"][:3]))
        groups.setdefault((met, f), []).append(t)
    for (met, f), trs in sorted(groups.items()):
        cfg = ("SPECIFICATION TSpec\nCONSTANTS Coord = {}\n Labels = {}\n MaxN = 0\n Metric = \"%s\"\n Fct = \"%s\"\n DEV_NoFarther = FALSE\n"
               "CHECK_DEADLOCK FALSE\n" % (met, f))
        verdicts, st = tlc.validate("SearchEngineTrace", cfg, trs)
        ctx.states += st["states"]
        ctx.transitions += st["transitions"]
        ctx.verdicts(verdicts, {t["id"]: t for t in trs}, SITE)
        ctx.extra.setdefault("trace_runs", []).append(dict(spec="SearchEngineTrace", metric=met, fct=f, traces=len(trs), **st))
    ctx.exhaustive = False
    ctx.rule = ("MC: every population of up to 3 vectors of the unit square (with / without metadata), every query and k: the "
                "distances of an answer are determined, an answer exists, k+1 extends k, a stored vector is at distance 0 of "
                "itself, metadata follow indices, queries and failed fits are pure. C2S: seeded histories (fit as arrays / frame "
                "with repeated index labels / iterator, malformed fits, kneighbors by list / row / vector with and without "
                "n_neighbors, before fit and with k > n) on SearchEngineVectors and SearchEnginePredictions with 4 featurizers, "
                "L1 and L2, all sklearn algorithms, validated event by event by SearchEngineTrace.")
    ctx.extra["note"] = "growth beyond the 20 listed properties; not registered in MANIFEST.json; to_zip / read_zip not exercised (pandas_streaming absent)"


if __name__ == "__main__":
    raise SystemExit(main("X-SearchEngine", run))
