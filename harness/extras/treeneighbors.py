"""Growth beyond the listed properties: mltree.tree_leave_neighbors against spec/TreeBox.tla (./check X-TreeNeighbors).
C12 speaks about leaves, boxes and predict_leaves only; the neighbourhood of leaves is modelled in the same module
(FacetNeighbors = requirement, GridNeighbors = the code's grid of cells) and bound here.  Not registered in
MANIFEST.json; exit 0 / 1 / 2 as the other checks, evidence in /verif/evidence/X-TreeNeighbors.json."""
import numpy
from .. import boot, tlc
from ..core import main
from ..props import c12

SITE = "mltree.tree_leave_neighbors"
S = 40          # coordinates times 40: half-integer thresholds, their midpoints and the |v|/10 margins are integers


def observe(model, nfeat):
    from mlinsights.mltree import tree_leave_neighbors
    nei = tree_leave_neighbors(model)
    keys, wit = [], []
    for (i, j), ws in sorted(nei.items()):
        keys.append([int(i), int(j)])
        for f, x1, x2 in ws:
            wit.append(dict(i=int(i), j=int(j), f=int(f), x1=[int(round(v * S)) for v in x1], x2=[int(round(v * S)) for v in x2]))
    return keys, wit


def scaled(model):
    t = model.tree_
    th = []
    for k in range(t.node_count):
        if t.children_left[k] == -1:
            th.append(-2)
        else:
            v = t.threshold[k] * S
            if v != round(v):
                return None
            th.append(int(round(v)))
    return dict(left=[int(v) for v in t.children_left], right=[int(v) for v in t.children_right],
                feat=[int(v) for v in t.feature], th=th)


def classify(t, v):
    return (v.fails[0][0] if v.fails else "NotABehaviour"), t.get("sig", "")


def run(ctx):
    boot.load()
    thorough = ctx.tier == "thorough"
    base = ("SPECIFICATION Spec\nCONSTANTS MaxNodes = %d\n NFeat = 2\n Ths = %s\n Grid = {0, 2, 4}\n DEV_RootLeafRaises = FALSE\n"
            % ((9, "{1, 3}") if thorough else (7, "{1, 3}")))
    ctx.add_mc("TreeBox neighbours", tlc.run("TreeBox", base + "INVARIANT NeighborsAreFacets\nINVARIANT NeighborsNeedTwoLeaves\nCHECK_DEADLOCK FALSE\n",
                                             workers=16, coverage=True, timeout=3000))
    ctx.add_mc("TreeBox neighbours, 3 features", tlc.run(
        "TreeBox", "SPECIFICATION Spec\nCONSTANTS MaxNodes = %d\n NFeat = 3\n Ths = {1, 3}\n Grid = {0, 2}\n DEV_RootLeafRaises = FALSE\n"
        "INVARIANT NeighborsAreFacets\nCHECK_DEADLOCK FALSE\n" % (7 if thorough else 5), workers=16, timeout=3000))
    ctx.add_mc("TreeBox[grid without the upper margin]", tlc.run(
        "TreeBox", "SPECIFICATION Spec\nCONSTANTS MaxNodes = 3\n NFeat = 1\n Ths = {1}\n Grid = {0, 2}\n DEV_RootLeafRaises = FALSE\n"
        "INVARIANT NoMarginIsEnough\nCHECK_DEADLOCK FALSE\n", workers=1), expect_violation="NoMarginIsEnough")
    traces = []
    # spec -> code: every tree of a small exhaustive space, realised as a real scikit-learn Tree
    sbase = ("SPECIFICATION Spec\nCONSTANTS MaxNodes = %d\n NFeat = 2\n Ths = {1, 3}\n Grid = {0, 2}\n DEV_RootLeafRaises = FALSE\n"
             "CONSTRAINT Emit\nCHECK_DEADLOCK FALSE\n" % (7 if thorough else 5))
    res = tlc.must_ok(tlc.run("MC_TreeBox", sbase, workers=1, timeout=1500), "emit TreeBox")
    seen = set()
    for case in res.json:
        key = (tuple(case["left"]), tuple(case["right"]), tuple(case["feat"]), tuple(case["th"]))
        if key in seen or len(case["left"]) < 3:
            continue
        seen.add(key)
        ctx.case(("tree",) + key, nontrivial=len(case["left"]) >= 5)
        model = c12.build_tree(case["left"], case["right"], case["feat"], case["th"], 2)
        t = dict(id=len(traces) + 1, nfeat=2, site=SITE, sig="built nodes=%d" % len(case["left"]),
                 left=case["left"], right=case["right"], feat=case["feat"], th=[v * (S // 2) if v >= -1 else -2 for v in case["th"]])
        t["th"] = [(-2 if lf < 0 else v * (S // 2)) for v, lf in zip(case["th"], case["left"])]
        try:
            t["keys"], t["wit"] = observe(model, 2)
        except Exception as e:
            ctx.violation("CallSucceeds", SITE, t["sig"], repr(e), case=case)
            continue
        traces.append(t)
    # code -> spec: fitted trees on integer data
    from sklearn.tree import DecisionTreeRegressor, DecisionTreeClassifier
    rng = ctx.rng
    for k in range(600 if thorough else 80):
        d = rng.randint(1, 3)
        n = rng.randint(2, 25)
        R = rng.randint(1, 4)
        X = numpy.array([[rng.randint(-R, R) for _ in range(d)] for _ in range(n)], dtype=numpy.float64)
        y = numpy.array([float(rng.randint(0, 5)) for _ in range(n)])
        kw = dict(random_state=rng.randint(0, 10 ** 6), max_depth=rng.randint(1, 4))
        if rng.random() < 0.3:
            kw["max_leaf_nodes"] = rng.randint(2, 7)
        model = (DecisionTreeClassifier if rng.random() < 0.4 else DecisionTreeRegressor)(**kw).fit(X, y.astype(int))
        arr = scaled(model)
        if arr is None or len(arr["left"]) < 3:
            continue
        t = dict(id=len(traces) + 1, nfeat=d, site=SITE, sig="fitted d=%d" % d, **arr)
        ctx.case(("fit", tuple(arr["left"]), tuple(arr["feat"]), tuple(arr["th"])), nontrivial=len(arr["left"]) >= 5,
                 sample=dict(kind="c2s", nfeat=d, left=arr["left"], feat=arr["feat"], th=arr["th"]))
        try:
            t["keys"], t["wit"] = observe(model, d)
        except Exception as e:
            ctx.violation("CallSucceeds", SITE, t["sig"], repr(e), case=arr)
            continue
        traces.append(t)
    verdicts, st = tlc.validate("TreeNeighborsTrace", "TreeNeighborsTrace.cfg", traces, timeout=3000)
    ctx.states += st["states"]
    ctx.transitions += st["transitions"]
    ctx.verdicts(verdicts, {t["id"]: t for t in traces}, SITE, classify=classify)
    ctx.exhaustive = False
    ctx.rule = ("MC: grid neighbours = facet neighbours on every tree of the bound (2-3 features, thresholds {1,3}); the grid "
                "without its upper margin must fail. S2C: every emitted tree (>= 3 nodes) realised as a scikit-learn Tree; C2S: "
                "fitted classifiers / regressors (depth- and best-first) on integer data in 1-3 dimensions; keys and witnesses of "
                "tree_leave_neighbors validated by TreeNeighborsTrace.")
    ctx.extra["note"] = "growth beyond the 20 listed properties; not registered in MANIFEST.json"


if __name__ == "__main__":
    raise SystemExit(main("X-TreeNeighbors", run))
