"""Shared driver of the life-cycle properties: runs histories of calls on real estimator objects and records them as
events for spec/LifecycleTrace.tla (canonical views, data fingerprints, canonical output ids)."""
import copy
import hashlib
import pickle
import re
import warnings
import numpy


def token(v):
    """canonical token of a parameter value"""
    if v is None or isinstance(v, (bool, int, str)):
        return repr(v)
    if isinstance(v, float):
        return repr(float(v))
    if isinstance(v, numpy.generic):
        return repr(v.item())
    if isinstance(v, (list, tuple)):
        inner = ",".join(token(x) for x in v)
        return ("[%s]" if isinstance(v, list) else "(%s)") % inner
    if isinstance(v, dict):
        return "{%s}" % ",".join("%s:%s" % (k, token(x)) for k, x in sorted(v.items()))
    if isinstance(v, numpy.ndarray):
        return "ndarray%s:%s" % (v.shape, hashlib.sha1(numpy.ascontiguousarray(v).tobytes()).hexdigest()[:8])
    if hasattr(v, "get_params"):
        return "<%s>" % type(v).__name__
    if callable(v):
        return "fn:%s" % getattr(v, "__name__", type(v).__name__)
    return "<%s>" % type(v).__name__


def view_of(obj):
    return {str(k): token(v) for k, v in obj.get_params(deep=True).items()}


def sub_of(key, v):
    """deep parameters a new value brings under `key` (absolute keys)"""
    out = {}
    if hasattr(v, "get_params"):
        for k, x in v.get_params(deep=True).items():
            out["%s__%s" % (key, k)] = token(x)
    elif isinstance(v, list) and v and all(hasattr(m, "get_params") for m in v):
        for i, m in enumerate(v):
            for k, x in m.get_params(deep=True).items():
                out["%s_%d__%s" % (key, i, k)] = token(x)
    return out


def under_of(key, view):
    pat = re.compile(re.escape(key) + r"(_\d+)?__")
    return [k for k in view if pat.match(k)]


def fingerprint(a):
    if a is None:
        return None
    if hasattr(a, "to_numpy"):
        return ("df", tuple(a.columns), tuple(a.index), hashlib.sha1(pickle.dumps(a.to_numpy().tolist())).hexdigest())
    a = numpy.asarray(a)
    if a.dtype == object or a.dtype.kind in "US":
        return (a.shape, hashlib.sha1(pickle.dumps(a.tolist())).hexdigest())
    return (a.shape, str(a.dtype), hashlib.sha1(numpy.ascontiguousarray(a).tobytes()).hexdigest())


class OutIds:
    """canonical ids of output rows: a new vector within 1e-9 of a seen one receives its id (batch and single-row BLAS
    paths may differ in the last ulp; 1e-9 absorbs that and nothing else)"""

    def __init__(self):
        self.objs = {}
        self.vecs = []
        self.n = 0

    def of(self, v):
        if hasattr(v, "toarray"):
            v = v.toarray()
        if hasattr(v, "to_numpy"):
            v = v.to_numpy()
        a = numpy.asarray(v)
        if a.dtype == object or a.dtype.kind in "USO":
            key = tuple(str(x) for x in a.ravel())
            if key not in self.objs:
                self.objs[key] = self.n
                self.n += 1
            return self.objs[key]
        a = a.astype(float).ravel()
        for cand, ident in self.vecs:
            if cand.shape == a.shape and numpy.allclose(cand, a, rtol=1e-9, atol=1e-9, equal_nan=True):
                return ident
        self.vecs.append((a.copy(), self.n))
        self.n += 1
        return self.n - 1


class History:
    """records events of one trace"""

    def __init__(self, tid, site, sig):
        self.t = dict(id=tid, site=site, sig=sig, ev=[])
        self.objs = {}
        self.next = 1
        self.ids = OutIds()
        self.rowids = {}

    def handle(self, obj):
        for h, o in self.objs.items():
            if o is obj:
                return h
        h = self.next
        self.next += 1
        self.objs[h] = obj
        return h

    def ev(self, **kw):
        self.t["ev"].append(kw)

    # ------------------------------------------------------------------ C01
    def new(self, obj, given=None):
        h = self.handle(obj)
        self.ev(a="new", h=h, cls=type(obj).__name__, given={k: token(v) for k, v in (given or {}).items()}, view=view_of(obj))
        return h

    def set(self, obj, kv):
        h = self.handle(obj)
        pre = view_of(obj)
        items = [dict(key=k, val=token(v), under=under_of(k, pre), sub=sub_of(k, v)) for k, v in kv.items()]
        for it, (k, v) in zip(items, kv.items()):
            # SkBaseTransformStacking: the constructor argument `method` DEFINES the method of every member (the members'
            # `models_<i>__method` keys are derived from it), so setting it owns those keys
            derived = [k2 for k2 in pre if k == "method" and re.fullmatch(r"models_\d+__method", k2)]
            if derived:
                it["under"] = it["under"] + derived
                it["sub"] = dict(it["sub"], **{k2: token(v) for k2 in derived})
            # ClassifierAfterKMeans advertises the parameters of `clus` / `estimator` a second time under the prefixes c_ / e_
            # (documented aliases): replacing the sub-estimator owns those keys too
            alias = {"clus": "c_", "estimator": "e_"}.get(k) if type(obj).__name__ == "ClassifierAfterKMeans" else None
            if alias and hasattr(v, "get_params"):
                it["under"] = it["under"] + [k2 for k2 in pre if k2.startswith(alias) and not k2.startswith(alias + "_")]
                it["sub"] = {alias + p2: token(x) for p2, x in v.get_params(deep=True).items()}     # (no `clus__*` keys there)
        raised, err, ret = False, "", None
        with warnings.catch_warnings():
            warnings.simplefilter("ignore")
            try:
                ret = obj.set_params(**kv)
            except Exception as e:
                raised, err = True, repr(e)[:150]
        self.ev(a="set", h=h, items=items, raised=raised, err=err, ret_self=ret is obj, view=view_of(obj))

    def clone(self, obj, baseline=()):
        from sklearn.base import clone
        h = self.handle(obj)
        try:
            with warnings.catch_warnings():
                warnings.simplefilter("ignore")
                c = clone(obj)
        except Exception as e:
            self.ev(a="clone", h=h, h2=0, raised=True, err=repr(e)[:150], view={}, fitted=False)
            return None
        h2 = self.handle(c)
        fitted = any(k.endswith("_") and not k.startswith("_") and not k.endswith("__") and k not in baseline
                     for k in vars(c)) if hasattr(c, "__dict__") else False
        self.ev(a="clone", h=h, h2=h2, raised=False, err="", view=view_of(c), fitted=bool(fitted))
        return c

    def crossfeed(self, src, dst):
        h, h2 = self.handle(src), self.handle(dst)
        raised, err, ret = False, "", None
        with warnings.catch_warnings():
            warnings.simplefilter("ignore")
            try:
                # the parameter set is deep-copied so that the two instances do not end up SHARING nested estimator objects
                # (sharing is plain Python aliasing, not a property of the library; the specification keeps one view per object)
                ret = dst.set_params(**(copy.deepcopy(src.get_params(deep=True)) if src is not dst else src.get_params(deep=True)))
            except Exception as e:
                raised, err = True, repr(e)[:150]
        self.ev(a="crossfeed", h=h, h2=h2, raised=raised, err=err, ret_self=ret is dst, view=view_of(dst))

    # ------------------------------------------------------------------ C02
    def call(self, obj, kind, fn, arrays, expect_ok=True, data="", seed=""):
        """fn() performs the call; arrays: the caller-owned arrays that must stay untouched."""
        h = self.handle(obj)
        before = [fingerprint(a) for a in arrays]
        outcome, err, ret = "ok", "", None
        with warnings.catch_warnings():
            warnings.simplefilter("ignore")
            try:
                ret = fn()
            except Exception as e:
                outcome, err = "raised", repr(e)[:150]
        after = [fingerprint(a) for a in arrays]
        self.ev(a="call", h=h, kind=kind, outcome=outcome, err=err, expect_ok=bool(expect_ok), view=view_of(obj),
                data_same=before == after, ret_self=ret is obj, data=data, seed=seed)
        return outcome == "ok", ret

    # ------------------------------------------------------------------ C03 / C04
    def rowid(self, row):
        if hasattr(row, "tolist"):
            row = row.tolist()
        if isinstance(row, (list, tuple)) and row and all(isinstance(v, (int, float)) and not isinstance(v, bool) for v in row):
            row = [float(v) for v in row]         # a row is its values: 3 and 3.0 are the same cell
        key = repr(row)
        if key not in self.rowids:
            self.rowids[key] = len(self.rowids) + 1
        return self.rowids[key]

    def obs(self, obj, method, X, clause, note=""):
        """observe method(X) row by row; returns False if the call raised"""
        h = self.handle(obj)
        try:
            with warnings.catch_warnings():
                warnings.simplefilter("ignore")
                out = getattr(obj, method)(X)
        except Exception as e:
            self.ev(a="call", h=h, kind=method, outcome="raised", err=repr(e)[:150], expect_ok=True, view=view_of(obj),
                    data_same=True, ret_self=False, data="", seed="")
            return False
        if hasattr(out, "toarray"):
            out = out.toarray()
        if hasattr(out, "to_numpy"):
            out = out.to_numpy()
        out = numpy.asarray(out)
        n = X.shape[0] if hasattr(X, "shape") else len(X)
        if out.shape[0] != n:
            self.ev(a="obs", h=h, method=method, clause=clause, note=note + " wrong number of rows", rows=[[0, 1], [0, 2]])
            return True
        rows = []
        for q in range(n):
            r = X.iloc[q].tolist() if hasattr(X, "iloc") else X[q]
            rows.append([self.rowid(r), self.ids.of(out[q])])
        self.ev(a="obs", h=h, method=method, clause=clause, note=note, rows=rows)
        return True

    def copy(self, obj, how):
        h = self.handle(obj)
        try:
            with warnings.catch_warnings():
                warnings.simplefilter("ignore")
                if how == "pickle":
                    c = pickle.loads(pickle.dumps(obj))
                else:
                    from mlinsights.mlmodel.sklearn_testing import clone_with_fitted_parameters
                    c = clone_with_fitted_parameters(obj)
        except Exception as e:
            self.ev(a="copy", h=h, h2=0, how=how, raised=True, err=repr(e)[:150])
            return None
        self.ev(a="copy", h=h, h2=self.handle(c), how=how, raised=False, err="")
        return c


def take(X, idx):
    if X is None:
        return None
    if hasattr(X, "iloc"):
        return X.iloc[idx]
    return X[idx]


def do_fit(hist, obj, X, y, entry, seed, dataid, extra=None, expect_ok=True):
    kw = dict(entry.fit_kw)
    kw.update(extra or {})
    numpy.random.seed(seed)
    arrays = [X, y] + [v for v in kw.values() if isinstance(v, numpy.ndarray)]
    seedtok = {"global": "g%d" % seed, "rs": "rs", "none": ""}[entry.seed]
    if y is None:
        fn = lambda: obj.fit(X, **kw) if kw else obj.fit(X)
    else:
        fn = lambda: obj.fit(X, y, **kw)
    return hist.call(obj, "fit", fn, arrays, expect_ok=expect_ok, data=dataid, seed=seedtok)


def observe_all(hist, obj, entry, X, clause, note=""):
    ok = True
    for m in entry.methods:
        ok = hist.obs(obj, m, X, clause, note=note) and ok
    return ok


def observe_attrs(hist, obj, clause, note=""):
    """fitted attributes (arrays / scalars ending with '_') as pseudo-methods 'attr:<name>' with a single row"""
    h = hist.handle(obj)
    for name in sorted(vars(obj)):
        if not name.endswith("_") or name.startswith("_"):
            continue
        v = getattr(obj, name)
        if isinstance(v, (int, float, str, bool, numpy.generic)) or (isinstance(v, numpy.ndarray) and v.dtype.kind in "fiub" and v.size < 5000):
            hist.ev(a="obs", h=h, method="attr:" + name, clause=clause, note=note, rows=[[0, hist.ids.of(numpy.asarray(v, dtype=float) if not isinstance(v, str) else numpy.array([v], dtype=object))]])


def validate(ctx, traces, site="lifecycle", strict_calls=False):
    from . import tlc
    verdicts, st = tlc.validate("LifecycleTrace", "LifecycleTrace.cfg", traces, timeout=3000, heap="6g", chunk=400)
    ctx.states += st["states"]
    ctx.transitions += st["transitions"]
    byid = {t["id"]: t for t in traces}
    for tid_, v in verdicts.items():
        ctx.traces += 1
        t = byid[tid_]
        if v.ok:
            continue
        if not v.fails:
            ctx.violation("NotABehaviour", t["site"], t["sig"], v.describe())
        seen = set()
        for clause, l_, det in v.fails:
            keys = ""
            if isinstance(det, dict):
                ks = det.get("keys") or det.get("differ") or det.get("missing") or det.get("method") or det.get("kind") or []
                keys = ",".join(sorted(str(k) for k in ks)[:3]) if isinstance(ks, list) else str(ks)
                if det.get("note"):
                    keys += " " + str(det["note"])
            if (clause, keys) in seen:
                continue
            seen.add((clause, keys))
            ev = t["ev"][l_ - 1] if isinstance(l_, int) and 0 < l_ <= len(t["ev"]) else {}
            if clause == "CopyWorks" and isinstance(det, dict) and det.get("how") == "clone_with_fitted_parameters":
                # the helper documents that it refuses some estimators (RuntimeError 'Cannot migrate ...'): a refusal is not a
                # copy with different outputs
                ctx.skipped.append("%s: clone_with_fitted_parameters refused: %s" % (t["site"], str(det.get("err"))[:100]))
                continue
            if clause == "CallSucceeds" and not strict_calls:
                # a call the scenario expected to work raised: the properties decided here (C02-C04) do not promise that it
                # works, so this only shortens the history; it is listed in the evidence, not reported as a violation
                ctx.skipped.append("%s: %s raised %s" % (t["site"], keys.strip(), str(det.get("err") if isinstance(det, dict) else det)[:120]))
                continue
            ctx.violation(clause, t["site"], keys.strip(), "event %s (%s): %s" % (l_, ev.get("a"), str(det)[:400]))
    ctx.extra.setdefault("trace_runs", []).append(dict(spec="LifecycleTrace", traces=len(traces), **st))
