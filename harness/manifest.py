"""Regenerate /verif/MANIFEST.json from the table below (python -m harness.manifest)."""
import json
import os

VERIF = os.path.dirname(os.path.dirname(os.path.abspath(__file__)))

BASELINE = ("cd /repo && env -u MLINSIGHTS_VERIF /venv/bin/python -m pytest -ra -q -p no:cacheprovider "
            "--timeout=900 --continue-on-collection-errors")

# id -> (design_ref, technique, level text, level note)
CLAIMED = {
    "C20": ("DESIGN 4/C20",
            "TLA+ spec TsFrame/TsMape: TLC model checking + spec->code replay of every TLC case + trace validation",
            "TLC checks, for every call configuration in the bound, that the framing mechanism (one action per "
            "statement of build_ts_X_y) produces exactly the promised index table and that the table never looks "
            "ahead; every terminal state of that model is replayed on the real function on a symbolic series and "
            "compared cell by cell; random larger calls and ts_mape calls are validated as traces by TLC.",
            "Trusts the symbolic-series argument (the function only moves cells, so y[t]=t identifies indices), "
            "TLC, and the out-of-tree import of /repo; delay1=1, use_all_past=False as the property states."),
    "C11": ("DESIGN 4/C11",
            "TLA+ spec PolyFeatures: TLC model checking of the block recurrence vs scikit-learn's enumeration + "
            "spec->code replay of every configuration + event-level trace validation of the kernels",
            "The two kernels and the separately coded name recurrence are transcribed action by action; TLC proves "
            "for every configuration in the bound that they produce scikit-learn's combinations in order. Every "
            "configuration is replayed on the real kernels with a recording output array and multiply callback "
            "(write sequence, factorised columns, names, n_output_features_, both kinds), larger ones are validated "
            "as traces event by event.",
            "Columns are identified by factorising outputs on a row of distinct primes (data independence of the "
            "kernels); scikit-learn's powers_ is used to cross-check the spec's enumeration. The compiled kernel's call protocol is the mechanism layer; the estimator is what is decided. Two layers (DESIGN 13): a deviation of the recorded mechanism alone is reported as MODEL-DRIFT (exit 0); a VIOLATION needs a clause on results to fail."),
    "C12": ("DESIGN 4/C12",
            "TLA+ specs DigitizeTree (explicit-stack machine of the recursive construction) and TreeBox (tree growth "
            "+ parent walk): TLC model checking + spec->code replay + trace validation of recorded add-node calls and "
            "fitted trees",
            "TLC checks Eval = numpy.digitize for every bin count/direction/query class in the bound and box <=> routed "
            "for every tree in the bound; every TLC case is replayed on the real functions (recorded tree_add_node "
            "sequence; TLC trees realised as real scikit-learn Trees), random bins and fitted trees (depth-first, "
            "best-first, one-node) are validated as traces.",
            "Dyadic edges / integer data so float32 casts and midpoints are exact; numpy.digitize and sklearn apply are "
            "used to cross-check the spec's own Digitize/Route definitions (a mismatch is a machinery failure). digitize2tree is decided on the finished node table (DigitizeFnTrace); the tree_add_node sequence is the mechanism layer. Two layers (DESIGN 13): a deviation of the recorded mechanism alone is reported as MODEL-DRIFT (exit 0); a VIOLATION needs a clause on results to fail."),
    "C19": ("DESIGN 4/C19",
            "TLA+ spec CatEncode (fit/schema layout + the cell loop with the variable p): TLC model checking (incl. a "
            "negative run reproducing the stale-p defect) + spec->code replay on real DataFrames + trace validation",
            "TLC checks, for every training value set, option combination and 1-2 row frame in the bound, that the cell "
            "loop writes exactly the row's own column=value indicators and raises iff an unseen value meets "
            "skip_errors=False; terminal states are replayed on real object-dtype frames (single=False and True, numeric "
            "columns, non-default index); random larger frames are validated as traces.",
            "columns= passed explicitly (pandas-3 auto-detection is version drift); `remove`d categories modelled as the "
            "code treats them (no column; a row holding one is an unseen value)."),
    "C07": ("DESIGN 4/C07",
            "TLA+ specs Quota / QuotaGain (geometry abstracted to arbitrary orders and preferences): TLC model checking "
            "incl. liveness and negative runs + exact replay of simulated TLC behaviours through a geometric embedding + "
            "event-level trace validation of every association call (hook H1)",
            "TLC proves Balanced/NoSkip/Histogram for strategy 'distance' for every processing order and preference "
            "profile in the bound (plus termination under fairness) and, for 'gain', balanced-unless-exhausted for every "
            "initial labelling, pair order and exchange decision; simulated Quota behaviours are replayed exactly on the "
            "real code; every association call of seeded fits/predictions is validated event by event against the "
            "specification's guards, and fit/predict-level observations (sizes, n_iter_, finite centres, nearest centre) "
            "against QuotaFitTrace.",
            "Hook H1 (add-only, guarded by MLINSIGHTS_VERIF) reports decisions after the state change; the open finding "
            "'swap-exhaustion' of strategy 'gain' is listed in known_findings.json and re-run on its recorded inputs. When an association trace or a replay deviates, 400-1200 further fits and balanced predictions are run before anything is concluded. Two layers (DESIGN 13): a deviation of the recorded mechanism alone is reported as MODEL-DRIFT (exit 0); a VIOLATION needs a clause on results to fail."),
    "C17": ("DESIGN 4/C17",
            "TLA+ spec Bootstrap (index requests, training triples, aggregation over recording models): TLC model "
            "checking incl. a negative run reproducing the excluded last row + trace validation of every "
            "randint call / base-estimator fit / prediction",
            "TLC checks EligibleAll, SizeExact, alignment and min<=mean<=max for every draw in the bound; seeded fits are "
            "run with numpy.random.randint wrapped and a recording base regressor; every fit (size, rows with their own "
            "targets and weights) and every predict_all / predict / predict_sorted row is an event validated by "
            "BootstrapTrace; a recorded randint call is evidence only: a fit trained on exactly its rows identifies it as the "
            "bootstrap draw, which must then be over all n rows; eligibility without observable draws is a statistical check.",
            "alpha dyadic; rounding is the code's int(n*alpha+0.5); thread schedules (n_jobs>1) are observed as they "
            "happen; how indices are drawn is not constrained (DESIGN 13)."),
    "C13": ("DESIGN 4/C13",
            "TLA+ spec TargetInv (name table with inverses; bijections label set -> 0..m-1; equivariant inner learner): "
            "TLC model checking incl. two negative runs + trace validation on the permutation the code really drew",
            "TLC checks RoundTrip, PredictsOriginalLabels, ProbaAgreesWithPlain and ColumnsMatchClasses for every "
            "bijection of several label sets; the observed name table (callables classified on dyadic points), the "
            "permutation transformer (random_state swept until every permutation was drawn, sigma read back), "
            "TransformedTargetClassifier2 around a recording equivariant classifier and TransformedTargetRegressor2 per "
            "name are validated as traces; real scikit-learn learners cover the agreement clause.",
            "closest=True excluded (NumPy-2 drift); numeric round trips within 1e-9; LogisticRegression agreement within "
            "solver tolerance."),
    "C14": ("DESIGN 4/C14",
            "TLA+ spec NGrams (stop-word filter + n-gram assembly loop; tuple order = joined-string order lemma): TLC "
            "model checking incl. a negative run + spec->code replay of every case + corpus-level trace validation",
            "TLC checks the loop against the windowed definition for every document/stop set/range in the bound and the "
            "ordering lemma on prefix-related tokens; every case is replayed through NGramsMixin._word_ngrams and "
            "scikit-learn's own; random corpora with all listed options are fitted with the traceable vectorizers and "
            "their parents and validated by NGramsTrace (vocabulary columns, matrices, counts from the spec's Grams).",
            "default tokenizer; tf-idf compared for equality with the parent class, not modelled."),
    "C18": ("DESIGN 4/C18",
            "TLA+ spec Metrics (min/mean/max accumulator machine; tr/inv_tr dispatch table): TLC model checking + "
            "event-level trace validation of every accumulation step and of all 36 dispatch combinations",
            "TLC checks range and min<=mean<=max for all accumulation histories in the bound; for seeded tables the "
            "train/test split of every draw and the generator state before it are captured (module global wrapped); the "
            "value of each (draw, i, j) is read off a one-draw run of the code from that state, so each contribution is "
            "an event the specification accumulates itself and compares with the returned matrices (square, range, extremes, labels, frame = array, input untouched, unit diagonal); "
            "comparable_metric is replayed on every (tr, inv_tr) pair with a recording metric.",
            "per-draw values are the code's own, on a 1e-6 grid; the formula of a draw is not demanded (DESIGN 13)."),
    "C06": ("DESIGN 4/C06",
            "TLA+ spec KMediansL1 (Lloyd loop: Manhattan E step, median M step, empty-cluster relocation, best-of tracking, "
            "the code's convergence test, final E step): TLC model checking incl. a negative run + step-by-step trace "
            "validation of the real E/M trajectory from TLC-enumerated initial states and random data",
            "TLC checks NearestLabel, InertiaIsSum, CentresInBox and FitSucceeds for every data set, k and tuple of initial "
            "centres on a lattice; initial states enumerated by TLC are replayed with init=<array> while the module globals "
            "_labels_inertia/_centers_dense are wrapped, and every E and M step of the code must be the specification's "
            "next step (relocation bound to the logged centre); random larger data cover string init modes, float32, "
            "predict/transform and the norm='L2' equality with scikit-learn's KMeans.",
            "integer data (exact after doubling); norm='L2' is an equality the trace spec evaluates, not a model of "
            "Euclidean k-means. The clauses of the property are decided on a companion trace carrying only what fit returned. Two layers (DESIGN 13): a deviation of the recorded mechanism alone is reported as MODEL-DRIFT (exit 0); a VIOLATION needs a clause on results to fail."),
    "C10": ("DESIGN 4/C10",
            "TLA+ spec LogregTree (explicit-stack machine of the recursive node fit with the code's index allocation; "
            "three traversals over tri-state rows): TLC model checking incl. a negative run + event-level trace validation "
            "of node enter/split/exit (hook H2) and spec-side tree walks for probe rows",
            "TLC checks distinct indices below n_nodes_, depth bound, decision_path = predict_proba path, leaves = "
            "terminals for every tree the recursion can build in the bound; for seeded fits every node event must be a "
            "step of the stack machine (guards, early returns, index allocation), and for probe rows the specification "
            "itself walks the fitted tree from per-node comparisons and checks decision_path, predict_proba, predict.",
            "exact ties with the threshold are exercised through a lookup stub classifier; for real learners near-ties "
            "(1e-9) are skipped; min_samples_leaf is modelled as the code applies it (node size). The clauses of the property are decided on a companion trace carrying the finished tree as walked by the harness. Two layers (DESIGN 13): a deviation of the recorded mechanism alone is reported as MODEL-DRIFT (exit 0); a VIOLATION needs a clause on results to fail."),
    "C09": ("DESIGN 4/C09",
            "TLA+ spec Criterion (cursor protocol with stored side weights; exact rational mean / MSE / linear-fit RSS / "
            "proxy / improvement): TLC model checking incl. a negative run + trace validation of the compiled criteria "
            "through their _test_criterion_* accessors and of per-leaf predictions",
            "TLC checks that the stored weights (hence impurity_improvement) are a function of (start,pos,end) for every "
            "data vector and call sequence in the bound; the three compiled criteria are driven through an exhaustive "
            "sweep of triples (boundaries included) and random call histories, every result projected to a rational and "
            "compared exactly with the specification; PiecewiseTreeRegressor predictions are compared with per-leaf least "
            "squares / means over the rows tree_.apply puts in the leaf, with max_depth and min_samples_leaf.",
            "one feature for the linear fit; rank-deficient ranges/leaves not claimed; projection = nearest rational with "
            "denominator <= 1e6 within 1e-9."),
    "C08": ("DESIGN 4/C08",
            "TLA+ specs Piecewise (mapping, fallback, per-bucket fits with the borrow rule, dispatch) and PiecewiseSched "
            "(bucket tasks x shared/per-bucket RNG, all interleavings): TLC model checking incl. negative runs + trace "
            "validation with recording local models + replay of task orders through an ordered executor",
            "TLC checks Partition, OneModelPerNonEmptyBucket, ExactRows (exactly one borrowed row per missing class), "
            "fallback and schedule independence for every small instance and interleaving; seeded fits with recording "
            "stubs (rows carry ids) are validated event by event: each local fit against its bucket (by object identity), "
            "the order of estimators_, every prediction against the model that must answer (unseen cells -> fallback), and "
            "the same fit re-run under permuted task orders.",
            "cells are read from the fitted binner; task orders are forced at task granularity (joblib's Parallel in the "
            "module namespace is replaced), not OS thread interleavings. Recorded fits are attributed to buckets by their rows (the estimator's own attributes are a hint only). Two layers (DESIGN 13): a deviation of the recorded mechanism alone is reported as MODEL-DRIFT (exit 0); a VIOLATION needs a clause on results to fail."),
    "C01": ("DESIGN 4/C01",
            "TLA+ spec Lifecycle (parameter store, set_params / clone as actions; negative run for a store that is replaced) "
            "+ LifecycleTrace: histories of new / set_params / clone / cross-feed / fit / predict on every exported class "
            "validated event by event against the predicted get_params view",
            "The trace specification keeps, per object, the canonical deep parameter view and predicts it after every "
            "set_params (exactly the given keys, an estimator-valued key replacing its subtree), clone (equal view, "
            "unfitted) and cross-feed (the receiver reports the donor's view); 'behaves identically' is decided by the "
            "specification's output memo after fitting all instances on the same data. One history per class of the "
            "table in harness/classes.py (nested, indexed incl. index >= 10, prefixed, estimator-valued, string keys).",
            "valid configurations = the table of alternatives; values compared as canonical tokens; QuantileMLPRegressor "
            "is not constructible here (version drift)."),
    "C02": ("DESIGN 4/C02",
            "TLA+ spec Lifecycle (fit as Save / Overwrite / Inner ok|raise / Restore; negative run without restore on raise) + "
            "LifecycleTrace: histories of failing and successful fits, predictions and scores on every class, validated at "
            "every return",
            "TLC checks on the reference model that only set_params changes the parameters for every history of failing "
            "and successful fits; for every class with a working fit the trace specification requires, at the return of "
            "every call (normal or exceptional), the same canonical get_params view, unchanged byte fingerprints of X, y "
            "and sample_weight, `fit(...) is obj`, and - through the output memo - that a model fitted after failures "
            "equals a fresh clone fitted on the same data. Failures: invalid inputs per class and inner estimators "
            "raising on their k-th fit.",
            "invalid inputs = per-class list; a call that raises where the scenario hoped for success only shortens the "
            "history (the property does not promise success)."),
    "C03": ("DESIGN 4/C03",
            "TLA+ spec Lifecycle (model signature <parameters, last data, seed>; negative run with a stale cache) + "
            "LifecycleTrace with the output memo: refit histories on every class",
            "Every class is fitted on A, used, refitted on B (other size / dimension / label set) and compared with a "
            "fresh clone fitted on B and with a third fit under the same seed: predictions and every numeric fitted "
            "attribute enter the specification's memo keyed by the signature, so anything an earlier fit leaks into a "
            "later one, or any dependence on the global seed where an integer random_state is documented as sufficient, "
            "is a clash.",
            "seed kind per class from the table in harness/classes.py; outputs compared as canonical ids (1e-9)."),
    "C04": ("DESIGN 4/C04",
            "TLA+ spec Lifecycle + LifecycleTrace with the output memo keyed by ROW: batches, permutations, sub-batches, "
            "single rows, repeated calls, pickle and clone-with-fitted copies of every row-wise class",
            "For every fitted row-wise predictor / transformer and every method, the output of a row is recorded in the "
            "memo under <model signature, method, row>: the whole batch, a permutation, a sub-batch, single rows, a "
            "repeated call, the unpickled model and the clone_with_fitted_parameters copy must all agree.",
            "balanced predictions of ConstraintKMeans are the documented exception and not exercised; a refusal of "
            "clone_with_fitted_parameters (RuntimeError) is not a violation."),
    "C15": ("DESIGN 4/C15",
            "TLA+ spec Wrappers (TransferTransformer machine: original vs working estimator, copy / alias, trainable; expected "
            "outputs of recording members; negative run with a copy that shares state) + WrappersTrace on recording stubs",
            "TLC checks Frozen, OriginalUntouched and TrainsLikeDirect for every (copy_estimator, trainable) and fit "
            "history; wrappers are then exercised around recording stubs whose outputs are exact integers: every member's "
            "training rows after wrapper.fit, every transform row against the specification's expected row (one member: "
            "the chosen method as a column; several: the concatenation in list order), and for TransferTransformer the "
            "rows the original and the working estimator have seen, object identity and both outputs.",
            "stubs stand for the wrapped models; real scikit-learn models cover decision_function, transform and mixed "
            "dtypes; the library's own refusal (AssertionError on tree estimators with copy_estimator=True) is skipped."),
    "C05": ("DESIGN 4/C05",
            "TLA+ spec Pinball (exact integer pinball loss, LP vertex optimum, quantile count): TLC model checking + trace "
            "validation of fitted lines and scores against the optimum the specification computes itself",
            "TLC checks vertex optimality against every lattice line in a box and the quantile count for every small data "
            "set; for seeded integer data (unweighted, integer weights, the same weights as repeated rows; six quantiles; "
            "fit_intercept / positive) the fitted line, score and the cross-score of the 1-q fit are validated by "
            "PinballTrace: loss within the stated IRLS tolerance of the exact optimum, score = twice the weighted mean of "
            "the same loss, a better q-fit never scores worse, about a fraction q below the line, sign and intercept "
            "options.",
            "max_iter=100; tolerance 1.02*Opt+1.5 is a stated constant; one feature (vertex enumeration); fitted "
            "coefficients enter on a 1e-2 grid."),
    "C16": ("DESIGN 4/C16",
            "TLA+ spec PipelineAst (pipelines as node tables grown by an action; preorder enumeration with coordinates): TLC "
            "model checking + spec->code replay of the complete ASTs as real scikit-learn pipelines, validated by "
            "PipelineTrace (enumeration, text, debugging records, parsed DOT graph invariants)",
            "TLC checks once / parents-first / distinct coordinates / coordinate length = depth for every AST in the bound; "
            "the complete ASTs are realised with tagged stub steps over a DataFrame, an array or a list of names and the "
            "library's answers are validated by the trace specification: enumerate_pipeline_models and pipeline2str "
            "against the spec's enumeration, alter_pipeline_for_debugging (same outputs, every step recorded with its "
            "actual input/output, consecutive steps chain, second call refused), and pipeline2dot parsed by a small "
            "recursive-descent parser (declared endpoints, unique ids, acyclic, every step and input column drawn, outputs "
            "reachable).",
            "stub leaf steps; DataFrameMapper / azureml branches need packages that are not installed."),
}

PENDING_REASON = "check not built yet in this round (planned: see DESIGN.md section 4); not claimed until it runs"


def build():
    props = [json.loads(l) for l in open(os.path.join(VERIF, "properties.jsonl"))]
    checks = []
    na = []
    for p in props:
        pid = p["id"]
        if pid in CLAIMED:
            ref, tech, text, note = CLAIMED[pid]
            checks.append(dict(
                property_id=pid,
                quick_cmd="./check %s --tier quick" % pid,
                thorough_cmd="./check %s --tier thorough" % pid,
                evidence_file="/verif/evidence/%s.json" % pid,
                replay_cmd_template="./check %s --replay {path}" % pid,
                engine="tla-mbt",
                level_claimed=dict(category="model_checking", text=text, design_ref=ref),
                level_note=note,
                technique=tech))
        else:
            na.append(dict(property_id=pid, reason=NA.get(pid, PENDING_REASON)))
    m = dict(
        version=1,
        setup_cmd="./check setup",
        hooks=dict(guard="MLINSIGHTS_VERIF",
                   enable="checks set MLINSIGHTS_VERIF=1 before importing /repo (harness/boot.py); the hooks "
                          "append events to mlinsights._verif.SINK; nothing is compiled in",
                   baseline_off_cmd=BASELINE,
                   source_commits=HOOK_COMMITS,
                   add_only=True),
        engines=[dict(name="tla-mbt", path="/verif/harness",
                      serves_properties=sorted(CLAIMED),
                      kind_free_text="explicit TLA+ specifications (spec/*.tla) checked with TLC; bound to the "
                                     "implementation by spec->code replay of TLC-generated cases and by batch "
                                     "validation of recorded implementation traces against *Trace.tla modules")],
        checks=checks,
        notes="See DESIGN.md. Exit 0 held / 1 VIOLATION / 2 machinery failure. known_findings.json lists "
              "recorded defects and fixes.",
        not_applicable=na)
    return m


NA = {}
HOOK_COMMITS = ["d780bd4", "fe74ecc", "fccf736"]

if __name__ == "__main__":
    m = build()
    with open(os.path.join(VERIF, "MANIFEST.json"), "w") as f:
        json.dump(m, f, indent=1)
    print("claimed:", [c["property_id"] for c in m["checks"]])
