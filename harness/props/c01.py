"""C01 - parameter protocol: get_params / set_params / clone round-trip for every estimator (spec: Lifecycle)."""
import numpy
from .. import boot, tlc, classes, lifecycle
from ..core import main


WEIGHTED = {"ClassifierAfterKMeans", "PiecewiseRegressor", "IntervalRegressor", "TransformedTargetRegressor2", "QuantileLinearRegression"}


def scenario(hist, entry, rng):
    """new(a), new(b); single-key sets on a (every advertised alternative); clone; idempotent set; cross-feed b <- a; fit both"""
    a, b = entry.make(0), entry.make(1)
    hist.new(a)
    hist.new(b)
    keys = list(entry.sets)
    rng.shuffle(keys)
    # plain and nested keys first, keys holding an estimator last (replacing an estimator changes which nested keys exist)
    keys.sort(key=lambda ka: hasattr(ka[1][0](), "get_params") or isinstance(ka[1][0](), list))
    for key, alts in keys:
        for thunk in alts:
            if key not in lifecycle.view_of(a):
                hist.t.setdefault("not_advertised", []).append(key)     # only advertised keys are part of the claim
                continue
            hist.set(a, {key: thunk()})
    peek_others(hist, [a, b], a)
    # several keys at once (a nested one together with a plain one when available)
    if len(entry.sets) >= 2:
        (k1, a1), (k2, a2) = entry.sets[0], entry.sets[-1]
        va = lifecycle.view_of(a)
        if k1 in va and k2 in va and not (k1.startswith(k2 + "__") or k2.startswith(k1 + "__")) \
                and not hasattr(a1[0](), "get_params") and not hasattr(a2[0](), "get_params"):
            hist.set(a, {k1: a1[0](), k2: a2[0]()})
    # an estimator and one of ITS parameters in the same call (a grid over a step and its options): the new estimator is
    # installed first, then configured
    for key, alts in entry.sets:
        if hasattr(alts[0](), "get_params"):
            nested = [(k2, a2) for k2, a2 in entry.sets if k2.startswith(key + "__") and not hasattr(a2[0](), "get_params")]
            for k2, a2 in nested[:1]:
                new = alts[0]()
                if k2.split("__", 1)[1] in new.get_params(deep=True):
                    hist.set(a, {key: new, k2: a2[-1]()})
    base = {k for k in vars(entry.make(0)) if k.endswith("_")}      # e.g. method_ is set by the constructor
    c = hist.clone(a, base)
    hist.clone(b, base)
    # feeding an instance its own parameters changes nothing
    hist.crossfeed(a, a)
    # feeding a differently configured instance a's parameters makes it report a's parameters ...
    hist.crossfeed(a, b)
    # ... and behave identically: same training set, same seed -> same outputs (the memo of the specification)
    if entry.fit and entry.rowwise and entry.methods:
        X, y = entry.data(rng)
        seed = rng.randint(0, 999)
        for k, obj in enumerate([a, b] + ([c] if c is not None else [])):
            # nested estimator objects are shared after set_params(**get_params()): fit deep copies
            import copy
            o = copy.deepcopy(obj)
            hist.objs[hist.handle(obj)] = o          # same handle, private copy
            extra = {}
            if entry.name in WEIGHTED and y is not None:
                extra["sample_weight"] = numpy.array([float(2 + (i % 3)) for i in range(X.shape[0])])
            ok, _ = lifecycle.do_fit(hist, o, X, y, entry, seed, "D1w" if extra else "D1", extra=extra, expect_ok=not extra)
            # equally configured instances behave identically - also in whether they can be trained at all
            hist.t.setdefault("trains", []).append(bool(ok))
            if ok:
                for m in entry.methods:
                    hist.obs(o, m, X, "BehavesIdentically", note="after cross-feed / clone")


def peek_others(hist, pop, touched):
    """configuring one instance leaves every other instance alone: their reports are read again (a `call` of kind
    'peek' does nothing; the specification compares the report with the view it keeps for that object)"""
    for o in pop:
        if o is not touched:
            hist.call(o, "peek", lambda: None, [])


def random_history(hist, entry, rng, length):
    """a long random history on a small population of instances of one class: set_params (single keys, several keys, the
    full parameter set of another instance), clone, self-feed - validated event by event"""
    pop = [entry.make(0), entry.make(1)]
    for o in pop:
        hist.new(o)
    base = {k for k in vars(entry.make(0)) if k.endswith("_")}
    plain = [(k, alts) for k, alts in entry.sets]
    for _ in range(length):
        op = rng.choice(["set", "set", "set", "multi", "clone", "cross", "self"])
        a = rng.choice(pop)
        if op in ("set", "multi"):
            view = lifecycle.view_of(a)
            cand = [(k, alts) for k, alts in plain if k in view]
            if not cand:
                continue
            if op == "set":
                k, alts = rng.choice(cand)
                hist.set(a, {k: rng.choice(alts)()})
            else:
                scal = [(k, alts) for k, alts in cand if not hasattr(alts[0](), "get_params")
                        and not (isinstance(alts[0](), list) and alts[0]() and hasattr(alts[0]()[0], "get_params"))]
                rng.shuffle(scal)
                kv = {}
                for k, alts in scal[:rng.randint(2, 3)]:
                    if not any(k.startswith(k2 + "__") or k2.startswith(k + "__") for k2 in kv):
                        kv[k] = rng.choice(alts)()
                if kv:
                    hist.set(a, kv)
        elif op == "clone" and len(pop) < 5:
            c = hist.clone(a, base)
            if c is not None:
                pop.append(c)
        elif op == "cross":
            b = rng.choice(pop)
            hist.crossfeed(a, b)
        elif op == "self":
            hist.crossfeed(a, a)
        if op in ("set", "multi", "self"):
            peek_others(hist, pop, a)


def classify(t, v):
    if v.fails:
        clause, _, det = v.fails[0]
        keys = ""
        if isinstance(det, dict):
            ks = det.get("keys") or det.get("differ") or det.get("missing") or []
            if isinstance(ks, list):
                keys = ",".join(sorted(str(k) for k in ks)[:4])
        return clause, (t["sig"] + " " + keys).strip()
    return "NotABehaviour", t["sig"]


def run(ctx):
    boot.load()
    thorough = ctx.tier == "thorough"
    ctx.add_mc("Lifecycle", tlc.run("MC_Lifecycle", "MC_Lifecycle.cfg", workers=8, coverage=True))
    cfg = open(tlc.SPEC + "/MC_Lifecycle.cfg").read()
    ctx.add_mc("Lifecycle[DEV_ReplaceStore]", tlc.run("MC_Lifecycle", cfg.replace("DEV_ReplaceStore = FALSE", "DEV_ReplaceStore = TRUE"),
                                                      workers=4), expect_violation="SetExact")
    rng = ctx.rng
    traces = []
    tid = 0
    for entry in classes.entries():
        for rep in range(12 if thorough else 2):
            tid += 1
            hist = lifecycle.History(tid, "C01 " + entry.name, entry.name)
            try:
                if rep == 0:
                    scenario(hist, entry, rng)
                    if len(set(hist.t.get("trains", []))) > 1:
                        ctx.violation("BehavesIdentically", "C01 " + entry.name, "fit after cross-feed / clone",
                                      "equally configured instances: some can be trained, some raise: %r" % (hist.t["trains"],))
                else:
                    random_history(hist, entry, rng, rng.randint(8, 30))
            except Exception as e:
                import traceback
                ctx.violation("ScenarioRuns", entry.name, type(e).__name__, traceback.format_exc()[-600:])
                continue
            ctx.case((entry.name, rep, len(hist.t["ev"])), nontrivial=True,
                     sample=dict(kind="history", cls=entry.name, events=[(e["a"], e.get("items", [{}])[0].get("key") if e["a"] == "set" else "")
                                                                          for e in hist.t["ev"][:8]]))
            if not entry.fit:
                ctx.skipped.append("%s: fit not exercised (%s)" % (entry.name, entry.notes))
            traces.append(hist.t)
    verdicts, st = tlc.validate("LifecycleTrace", "LifecycleTrace.cfg", traces, timeout=2400, heap="6g")
    ctx.states += st["states"]
    ctx.transitions += st["transitions"]
    for tid_, v in verdicts.items():
        ctx.traces += 1
        t = next(t for t in traces if t["id"] == tid_)
        # every failed requirement of the history is its own violation (one class can break several clauses)
        if v.ok:
            continue
        if not v.fails:
            ctx.violation("NotABehaviour", t["site"], t["sig"], v.describe(), case=None)
        seen = set()
        for clause, l_, det in v.fails:
            keys = ""
            if isinstance(det, dict):
                ks = det.get("keys") or det.get("differ") or det.get("missing") or []
                if isinstance(ks, list):
                    keys = ",".join(sorted(str(k) for k in ks)[:3])
            key = (clause, keys)
            if key in seen:
                continue
            seen.add(key)
            ctx.violation(clause, t["site"], keys, "event %s: %s" % (l_, str(det)[:400]))
    ctx.extra.setdefault("trace_runs", []).append(dict(spec="LifecycleTrace", traces=len(traces), **st))
    ctx.exhaustive = False
    ctx.rule = ("One history per exported class (x3 in the thorough tier): two differently configured instances; set_params on every "
                "listed key with every alternative value (nested `a__b`, indexed `models_<i>__`, prefixed `c_`/`e_` keys, estimator-"
                "valued keys, string/callable options), several keys at once; clone; self-feed; cross-feed; then fit all on the same "
                "data and compare outputs through the specification's memo. distinct = (class, history).")
    ctx.assumptions += ["'every valid configuration' is the per-class table of alternatives in harness/classes.py",
                        "parameter values are compared as canonical tokens (estimators by class, their parameters as nested keys)"]


if __name__ == "__main__":
    raise SystemExit(main("C01", run))
