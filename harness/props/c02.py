"""C02 - fit/predict never alter hyper-parameters or caller data, even when fit fails (spec: Lifecycle)."""
import copy
import numpy
from .. import boot, tlc, classes, lifecycle, stubs
from ..core import main


def inner_fail_variants():
    """meta-estimators around an inner estimator that raises on its k-th fit"""
    import mlinsights.mlmodel as M
    from mlinsights.sklapi import SkBaseTransformLearner, SkBaseTransformStacking
    F = stubs.FailOnCall
    out = []
    for k in (1, 2, 3):
        out.append(("PiecewiseRegressor", lambda k=k: M.PiecewiseRegressor(binner=classes._dtr(2), estimator=F(k)), classes.data_reg, k))
        out.append(("PiecewiseClassifier", lambda k=k: M.PiecewiseClassifier(binner=classes._dtc(2), estimator=F(k), random_state=0), classes.data_clf, k))
        out.append(("IntervalRegressor", lambda k=k: M.IntervalRegressor(estimator=F(k), n_estimators=3), classes.data_reg, k))
    for k in (1, 2):
        out.append(("SkBaseTransformStacking", lambda k=k: SkBaseTransformStacking([F(k), F(k)], method="predict"), classes.data_clf, k))
        out.append(("DecisionTreeLogisticRegression", lambda k=k: M.DecisionTreeLogisticRegression(estimator=F(k), max_depth=3, fit_improve_algo="none"), classes.data_clf, k))
    out.append(("SkBaseTransformLearner", lambda: SkBaseTransformLearner(F(1), method="predict"), classes.data_clf, 1))
    out.append(("ClassifierAfterKMeans", lambda: M.ClassifierAfterKMeans(estimator=F(1), clus=classes._km(2)), classes.data_clf, 1))
    out.append(("TransformedTargetRegressor2", lambda: M.TransformedTargetRegressor2(regressor=F(1), transformer="log"), classes.data_pos, 1))
    out.append(("TransformedTargetClassifier2", lambda: M.TransformedTargetClassifier2(classifier=F(1), transformer="permute"), classes.data_clf3, 1))
    out.append(("PredictableTSNE", lambda: M.PredictableTSNE(transformer=stubs.StubEmbedding(), estimator=F(1)), classes.data_clf, 1))
    return out


def scenario(hist, entry, rng, weighted, variant):
    a = entry.make(variant)
    hist.new(a)
    X, y = entry.data(rng)
    X0, y0 = copy.deepcopy(X), copy.deepcopy(y)
    seed = rng.randint(0, 999)
    # failing fits, possibly several in a row (a temporary parameter swap composes over failures)
    for desc, mk in entry.bad:
        for rep in range(rng.choice([1, 2, 3])):
            bx, by, kw = mk(copy.deepcopy(X0), copy.deepcopy(y0))
            lifecycle.do_fit(hist, a, bx, by, entry, seed, "bad:" + desc, extra=kw, expect_ok=False)
    extra = {}
    if weighted:
        extra["sample_weight"] = numpy.array([float(2 + (i % 3)) for i in range(X.shape[0] if hasattr(X, "shape") else len(X))])
    ok, _ = lifecycle.do_fit(hist, a, X, y, entry, seed, "D1" + ("w" if weighted else ""), extra=extra)
    if not ok:
        return
    P = copy.deepcopy(X0)
    for m in entry.methods:
        hist.call(a, m, lambda m=m: getattr(a, m)(P), [P])
        hist.obs(a, m, X0, "FailureIsTransparent", note="after failed fits")
    if hasattr(a, "score") and y is not None and entry.rowwise:
        hist.call(a, "score", lambda: a.score(X, y), [X, y], expect_ok=False)
        if weighted:
            w = numpy.array([float(1 + (i % 3)) for i in range(X.shape[0])])
            hist.call(a, "score", lambda: a.score(X, y, sample_weight=w), [X, y, w], expect_ok=False)
            hist.call(a, "score", lambda: a.score(X, y, sample_weight=w), [X, y, w], expect_ok=False)
    # a fresh clone fitted on the same data gives the same model
    c = hist.clone(a, {k for k in vars(entry.make(0)) if k.endswith("_")})
    if c is not None and entry.name != "TransferTransformer":      # a clone of a TransferTransformer wraps an UNFITTED estimator
        ok2, _ = lifecycle.do_fit(hist, c, copy.deepcopy(X0), copy.deepcopy(y0), entry, seed, "D1" + ("w" if weighted else ""),
                                  extra=dict(extra))
        if ok2:
            for m in entry.methods:
                hist.obs(c, m, X0, "FailureIsTransparent", note="fresh clone")


def run(ctx):
    boot.load()
    thorough = ctx.tier == "thorough"
    ctx.add_mc("Lifecycle", tlc.run("MC_Lifecycle", "MC_Lifecycle.cfg", workers=8, coverage=True))
    cfg = open(tlc.SPEC + "/MC_Lifecycle.cfg").read()
    ctx.add_mc("Lifecycle[DEV_NoRestoreOnRaise]", tlc.run(
        "MC_Lifecycle", cfg.replace("DEV_NoRestoreOnRaise = FALSE", "DEV_NoRestoreOnRaise = TRUE"), workers=4), expect_violation="NoTempLeft")
    rng = ctx.rng
    traces = []
    tid = 0
    supports_w = {"QuantileLinearRegression", "KMeansL1L2", "ConstraintKMeans", "PiecewiseRegressor", "PiecewiseClassifier",
                  "PiecewiseTreeRegressor", "DecisionTreeLogisticRegression", "IntervalRegressor", "ClassifierAfterKMeans",
                  "TransformedTargetRegressor2", "TransformedTargetClassifier2"}
    for entry in classes.entries():
        if not entry.fit or not entry.rowwise:
            ctx.skipped.append("%s: %s" % (entry.name, entry.notes or "not a row-wise predictor (covered by C13 / C20)"))
            continue
        for rep in range(12 if thorough else 2):
            for weighted in ([False, True] if entry.name.split("[")[0] in supports_w else [False]):
                if entry.name.startswith("KMeansL1L2") and weighted:
                    continue      # non-uniform weights: documented NotImplementedError for norm='L1'
                tid += 1
                hist = lifecycle.History(tid, "C02 " + entry.name, "bad-data history" + (" weighted" if weighted else ""))
                scenario(hist, entry, rng, weighted, rep % 2)
                ctx.case((entry.name, rep, weighted), sample=dict(kind="history", cls=entry.name,
                                                                  events=[(e["a"], e.get("kind", ""), e.get("outcome", "")) for e in hist.t["ev"][:8]]))
                traces.append(hist.t)
    for name, mk, data, k in inner_fail_variants():
        tid += 1
        hist = lifecycle.History(tid, "C02 " + name, "inner estimator fails on call %d" % k)
        stubs.FailOnCall.reset()
        a = mk()
        hist.new(a)
        X, y = data(rng)
        fake = type("E", (), dict(fit_kw={}, seed="none"))()
        # fit until the k-th inner call has happened (it raises), then once more: that fit must succeed
        for attempt in range(5):
            past = stubs.FailOnCall.COUNT[0] >= k
            lifecycle.do_fit(hist, a, X, y, fake, 0, "inner-fail attempt %d" % attempt, expect_ok=past)
            if past:
                break
        ctx.case((name, "inner", k))
        traces.append(hist.t)
    # option combinations that the constructor and fit accept and that a later call refuses (or accepts): whatever the
    # call does, it reports the same hyper-parameters afterwards
    import mlinsights.mlmodel as M
    combos = [("ConstraintKMeans[weights,balanced]", lambda k: M.ConstraintKMeans(n_clusters=2 + k, strategy="weights", balanced_predictions=True,
                                                                                  max_iter=5, random_state=k, n_init=1), classes.data_clu,
               ["predict", "transform", "score"]),
              ("ConstraintKMeans[gain,balanced]", lambda k: M.ConstraintKMeans(n_clusters=2 + k, strategy="gain", balanced_predictions=True,
                                                                               max_iter=5, random_state=k, n_init=1), classes.data_clu,
               ["predict", "transform", "score"])]
    for name, mk, data, methods in combos:
        for k in (0, 1):
            tid += 1
            hist = lifecycle.History(tid, "C02 " + name, "option combination decided at call time")
            a = mk(k)
            hist.new(a)
            X, y = data(rng)
            fake = type("E", (), dict(fit_kw={}, seed="global"))()
            ok, _ = lifecycle.do_fit(hist, a, X, y, fake, 7, "D1", expect_ok=False)
            if ok:
                for m in methods:
                    for rep in range(2):
                        P = copy.deepcopy(X)
                        hist.call(a, m, lambda m=m, P=P: getattr(a, m)(P), [P], expect_ok=False)
            ctx.case((name, k))
            traces.append(hist.t)
    lifecycle.validate(ctx, traces)
    ctx.exhaustive = False
    ctx.rule = ("Per class with a working fit: 1-3 consecutive failing fits per kind of invalid input (short y, wrong weight length, "
                "inf in y, n < k), then a successful fit (with and without sample_weight), every row-wise method and score, then a "
                "fresh clone fitted on the same data - get_params, byte fingerprints of X / y / sample_weight and `fit(...) is obj` "
                "are logged at every return, outputs go through the specification's memo; plus meta-estimators around an inner "
                "estimator raising on its k-th fit (k = 1..3). distinct = (class, scenario).")
    ctx.assumptions += ["invalid inputs are the per-class list in harness/classes.py", "score may legitimately be absent / raise (expect_ok = False)"]


if __name__ == "__main__":
    raise SystemExit(main("C02", run))
