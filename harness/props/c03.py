"""C03 - a fitted model depends only on parameters, the last training set and seeds (spec: Lifecycle)."""
import copy
import numpy
from .. import boot, tlc, classes, lifecycle
from ..core import main


def other_data(entry, rng):
    """a second training set of another size (and, where the class allows it, other dimensions / label set)"""
    import mlinsights.mlmodel as M  # noqa
    X, y = entry.data(rng)
    name = entry.name
    if name in ("QuantileLinearRegression", "PiecewiseRegressor", "PiecewiseTreeRegressor", "IntervalRegressor", "TransformedTargetRegressor2"):
        X2, y2 = classes.data_reg(rng, n=rng.randint(8, 12), d=3)
        if name == "TransformedTargetRegressor2":
            X2, y2 = X2 + 1, y2 + 1
        return X2, y2
    if name in ("KMeansL1L2", "ConstraintKMeans", "ExtendedFeatures"):
        return classes.data_clu(rng, n=rng.randint(8, 12), d=3)
    if name in ("PiecewiseClassifier", "ClassifierAfterKMeans", "TransformedTargetClassifier2", "SkBaseTransformLearner",
                "SkBaseTransformStacking", "SkBaseTransformStacking[11]"):
        return classes.data_clf3(rng, n=rng.randint(10, 14), d=3)
    if name == "DecisionTreeLogisticRegression":
        return classes.data_clf(rng, n=rng.randint(10, 14), d=3, labels=(1, 4))
    return entry.data(rng)


def represent(X, y, rng):
    """the same training values held differently by the caller: Fortran order / a strided view into a wider buffer
    (float64 throughout: same values, same dtype).  None when the container is not a float matrix."""
    if not isinstance(X, numpy.ndarray) or X.ndim != 2 or X.dtype != numpy.float64:
        return None
    if rng.random() < 0.5:
        X2 = numpy.asfortranarray(X.copy())
    else:
        wide = numpy.full((X.shape[0], 2 * X.shape[1]), 12345.0)
        wide[:, ::2] = X
        X2 = wide[:, ::2]
    y2 = y
    if isinstance(y, numpy.ndarray) and y.ndim == 1:
        buf = numpy.zeros((2 * y.shape[0],), dtype=y.dtype)
        buf[::2] = y
        y2 = buf[::2]
    return X2, y2


def layout_exact(est):
    """Iterative solvers that stop on a tolerance (lbfgs of LogisticRegression, the coordinate descent of NMF) may stop one
    step earlier or later when the same values are laid out differently in memory (other BLAS paths, last-ulp
    differences): their models then differ by far more than an ulp without anything being wrong.  The layout clause is
    only evaluated where the fit is a finite exact-arithmetic-like computation (trees, least squares, medians, stubs)."""
    def names(o):
        yield type(o).__name__
        if hasattr(o, "get_params"):
            for v in o.get_params(deep=True).values():
                for w in (v if isinstance(v, (list, tuple)) else [v]):
                    if hasattr(w, "get_params"):
                        yield type(w).__name__
    return not ({"LogisticRegression", "ApproximateNMFPredictor", "NMF", "MLPRegressor"} & set(names(est)))


def plain_sets(entry):
    return [(k, j) for k, alts in entry.sets for j in range(len(alts))
            if not hasattr(alts[0](), "get_params")
            and not (isinstance(alts[0](), list) and alts[0]() and hasattr(alts[0]()[0], "get_params"))]


def reconfigure(hist, a, entry, rng, which=None):
    """between two fits the user changes a (plain) parameter: what the first fit learned under the old value must not
    survive the second fit.  `which` = (key, index of the alternative)"""
    if which is None:
        return
    key, j = which
    alts = dict(entry.sets)[key]
    if key.endswith("random_state") and alts[j]() is None:
        return          # random_state=None hands the fit over to the global generator: not the configuration C03 speaks about
    if key in lifecycle.view_of(a):
        hist.set(a, {key: alts[j]()})


def scenario(hist, entry, rng, variant=0, which=None):
    a = entry.make(variant)
    hist.new(a)
    XA, yA = entry.data(rng)
    XB, yB = other_data(entry, rng)
    seedA, seedB = rng.randint(0, 999), rng.randint(0, 999)
    # fit on A, look at it (caches such as neighbour indexes are filled by predict), then refit on B
    okA, _ = lifecycle.do_fit(hist, a, XA, yA, entry, seedA, "A")
    if okA:
        lifecycle.observe_all(hist, a, entry, XA, "SeedDeterminism", note="first fit")
    reconfigure(hist, a, entry, rng, which)
    okB, _ = lifecycle.do_fit(hist, a, XB, yB, entry, seedB, "B")
    base = {k for k in vars(entry.make(0)) if k.endswith("_")}
    c = hist.clone(a, base)
    if c is None or not okB:
        return
    # where an integer random_state is documented as sufficient the global seed must not matter: use another one
    lifecycle.do_fit(hist, c, copy.deepcopy(XB), copy.deepcopy(yB), entry, seedB if entry.seed != "rs" else seedB + 17, "B")
    for obj, note in ((a, "refitted instance"), (c, "fresh clone")):
        answered = lifecycle.observe_all(hist, obj, entry, XB, "RefitEqFresh", note=note)
        # whether the model answers at all is part of what is compared: a refitted instance that raises where a fresh
        # clone answers is not "the same model"
        hist.ev(a="obs", h=hist.handle(obj), method="answers", clause="RefitEqFresh", note=note,
                rows=[[0, hist.ids.of(numpy.array([1.0 if answered else 0.0]))]])
        lifecycle.observe_attrs(hist, obj, "RefitEqFresh", note=note)
    # the training set is its values, not how the caller holds them: a second clone trained on the same B kept in
    # Fortran order / as a strided view is the same model
    rep = represent(XB, yB, rng) if layout_exact(a) else None
    if rep is not None:
        e = hist.clone(a, base)
        if e is not None:
            lifecycle.do_fit(hist, e, rep[0], rep[1], entry, seedB if entry.seed != "rs" else seedB + 17, "B")
            lifecycle.observe_all(hist, e, entry, XB, "RefitEqFresh", note="fresh clone, other memory layout")
    # same data, parameters and seed again on the same instance: exactly the same model
    lifecycle.do_fit(hist, a, XB, yB, entry, seedB, "B")
    lifecycle.observe_all(hist, a, entry, XB, "SeedDeterminism", note="third fit, same seed")
    lifecycle.observe_attrs(hist, a, "SeedDeterminism", note="third fit, same seed")


def mirror_trees(ctx):
    """Two training sets whose binner trees have the SAME number of nodes and mirrored shapes (leaves {1,3,4} / {2,3,4}):
    anything keyed on the size of the tree instead of the tree survives the refit.  Refitted instance vs fresh clone."""
    import warnings
    from sklearn.tree import DecisionTreeRegressor, DecisionTreeClassifier
    from sklearn.linear_model import LinearRegression
    from sklearn.base import clone
    import mlinsights.mlmodel as M
    X = numpy.array([[float(i), float(i % 3)] for i in range(16)])
    plans = [("PiecewiseRegressor", lambda: M.PiecewiseRegressor(binner=DecisionTreeRegressor(max_depth=2, random_state=0), estimator=LinearRegression()),
              numpy.array([0.0] * 8 + [100.0] * 4 + [200.0] * 4), numpy.array([200.0] * 4 + [100.0] * 4 + [0.0] * 8), ["predict", "transform_bins"]),
             ("PiecewiseClassifier", lambda: M.PiecewiseClassifier(binner=DecisionTreeClassifier(max_depth=2, random_state=0),
                                                                  estimator=DecisionTreeClassifier(max_depth=1, random_state=0), random_state=0),
              numpy.array([0] * 8 + [1, 1, 1, 1, 2, 2, 2, 2]), numpy.array([1, 1, 1, 1, 2, 2, 2, 2] + [0] * 8), ["predict", "predict_proba", "transform_bins"])]
    for name, mk, y1, y2, methods in plans:
        for first, second in ((y1, y2), (y2, y1)):
            ctx.evaluations += 1
            with warnings.catch_warnings():
                warnings.simplefilter("ignore")
                try:
                    a = mk()
                    a.fit(X, first)
                    for m in methods:
                        getattr(a, m)(X)
                    shape1 = (a.binner_.tree_.node_count, tuple(a.binner_.tree_.children_left))
                    a.fit(X, second)
                    shape2 = (a.binner_.tree_.node_count, tuple(a.binner_.tree_.children_left))
                    c = clone(a).fit(X, second)
                    for m in methods:
                        ra, rc = numpy.asarray(getattr(a, m)(X)), numpy.asarray(getattr(c, m)(X))
                        if ra.shape != rc.shape or not numpy.allclose(ra, rc, atol=1e-9, equal_nan=True):
                            ctx.violation("RefitEqFresh", "C03 " + name, "%s fresh clone (mirrored binner trees)" % m,
                                          dict(first_tree=shape1, second_tree=shape2))
                except Exception as e:          # noqa: BLE001
                    ctx.violation("RefitEqFresh", "C03 " + name, "answers (mirrored binner trees)", repr(e)[:200])
            ctx.case(("mirror", name, tuple(first)), nontrivial=shape1[0] == shape2[0] and shape1 != shape2)


def run(ctx):
    boot.load()
    thorough = ctx.tier == "thorough"
    ctx.add_mc("Lifecycle", tlc.run("MC_Lifecycle", "MC_Lifecycle.cfg", workers=8, coverage=True))
    cfg = open(tlc.SPEC + "/MC_Lifecycle.cfg").read()
    ctx.add_mc("Lifecycle[DEV_StaleCache]", tlc.run("MC_Lifecycle", cfg.replace("DEV_StaleCache = FALSE", "DEV_StaleCache = TRUE"),
                                                    workers=4), expect_violation="SignatureUsesLastData")
    rng = ctx.rng
    traces = []
    tid = 0
    for entry in classes.entries():
        if not entry.fit:
            ctx.skipped.append("%s: %s" % (entry.name, entry.notes))
            continue
        if entry.name == "TransferTransformer":
            ctx.skipped.append("TransferTransformer: a clone wraps an unfitted estimator; its refit behaviour is decided by C15")
            continue
        # one history without reconfiguration per variant, then one per (plain key, alternative) set between the two fits
        plans = [(0, None), (1, None)] + [(j % 2, w) for j, w in enumerate(plain_sets(entry))]
        if thorough:
            plans = (plans + [(1 - v_, w) for v_, w in plans[2:]]) * 3
        for rep, (variant, which) in enumerate(plans):
            tid += 1
            hist = lifecycle.History(tid, "C03 " + entry.name, "A then B vs fresh clone on B" + (" after set_params(%s)" % which[0] if which else ""))
            if entry.rowwise and entry.methods:
                scenario(hist, entry, rng, variant, which)
            else:
                scenario_attrs_only(hist, entry, rng, variant, which)
            ctx.case((entry.name, rep), sample=dict(kind="history", cls=entry.name,
                                                    events=[(e["a"], e.get("kind", e.get("method", "")), e.get("data", "")) for e in hist.t["ev"][:9]]))
            traces.append(hist.t)
    mirror_trees(ctx)
    lifecycle.validate(ctx, traces)
    ctx.exhaustive = False
    ctx.rule = ("Per class: fit on A (and use the model), refit the same instance on B (other size, dimension, label set), fit a "
                "fresh clone on B, fit the instance a third time with the same seed. Predictions on B and every numeric fitted "
                "attribute are observed; objects with equal signature <parameters, data, seed> must agree (the memo of the "
                "specification). Where an integer random_state is documented as sufficient the clone is fitted under another "
                "global seed. distinct = (class, repetition).")
    ctx.assumptions += ["seed kind per class (global NumPy seed / integer random_state / none) is the table in harness/classes.py"]


def scenario_attrs_only(hist, entry, rng, variant=0, which=None):
    """transformers of targets / vectorizers: compare fitted attributes (permutations, vocabularies, categories)"""
    a = entry.make(variant)
    hist.new(a)
    XA, yA = entry.data(rng)
    XB, yB = entry.data(rng)
    s = rng.randint(0, 999)
    lifecycle.do_fit(hist, a, XA, yA, entry, s, "A")
    if hasattr(a, "get_fct_inv"):
        try:
            a.get_fct_inv()          # used once after the first fit (every predict of the target wrappers does)
        except Exception:
            pass
    reconfigure(hist, a, entry, rng, which)
    okB, _ = lifecycle.do_fit(hist, a, XB, yB, entry, s, "B")
    c = hist.clone(a, {k for k in vars(entry.make(0)) if k.endswith("_")})
    if c is None or not okB:
        return
    lifecycle.do_fit(hist, c, copy.deepcopy(XB), copy.deepcopy(yB), entry, s if entry.seed != "rs" else s + 17, "B")
    for obj, note in ((a, "refitted instance"), (c, "fresh clone")):
        h = hist.handle(obj)
        state = {k: v for k, v in vars(obj).items() if k.endswith("_") and not k.startswith("_")}
        if hasattr(obj, "get_fct_inv"):
            # objects derived from the fitted state on demand (the reverse transformer) follow the LAST fit
            try:
                state["<get_fct_inv>"] = sorted(vars(obj.get_fct_inv()).get("permutation_", {}).items())
            except Exception as e:
                state["<get_fct_inv>"] = "raised " + type(e).__name__
        hist.ev(a="obs", h=h, method="attr:all", clause="RefitEqFresh", note=note,
                rows=[[0, hist.ids.of(numpy.array([repr(sorted(state.items(), key=lambda kv: kv[0]))], dtype=object))]])


if __name__ == "__main__":
    raise SystemExit(main("C03", run))
