"""C04 - predictions are a pure per-row function of the model and survive persistence (spec: Lifecycle)."""
import numpy
from .. import boot, tlc, classes, lifecycle
from ..core import main


def probes(entry, X, rng):
    """rows of the training set plus rows that fall in buckets / leaves unseen at training time, with duplicates"""
    if hasattr(X, "iloc"):
        idx = [rng.randrange(len(X)) for _ in range(6)]
        P = X.iloc[idx + idx[:2]].reset_index(drop=True)
        return P
    if X.dtype.kind in "US":
        extra = numpy.array(["zz aa", "", "bb bb bb"])
        return numpy.concatenate([X[:3], extra, X[:2]])
    n, d = X.shape
    rows = [list(X[rng.randrange(n)]) for _ in range(4)]
    rows += [[float(rng.randint(-3, 14)) for _ in range(d)] for _ in range(4)]
    rows += [rows[0], rows[5]]
    return numpy.array(rows, dtype=X.dtype)


def drop_near_ties(model, P):
    """DecisionTreeLogisticRegression routes a row by comparing a node classifier's probability with the node's
    threshold, and fit_improve puts thresholds ON training rows: for such a row the comparison is decided by the last
    ulp, which differs between a batch and a single-row BLAS call.  Rows within 1e-9 of a threshold on their path are
    not probes (the same rule as in C10: a floating-point near-tie is not reproducible outside the call)."""
    if type(model).__name__ != "DecisionTreeLogisticRegression" or not hasattr(model, "tree_"):
        return P
    keep = []
    for q in range(len(P)):
        node, near = model.tree_, False
        x = P[q:q + 1]
        while node is not None:
            p1 = node.estimator.predict_proba(x)[0, 1]
            if abs(p1 - node.threshold) < 1e-9:
                near = True
                break
            node = node.above if p1 > node.threshold else node.below
        if not near:
            keep.append(q)
    return P[keep] if len(keep) >= 4 else P[:0]


def scenario(hist, entry, rng, variant=0):
    a = entry.make(variant)
    hist.new(a)
    X, y = entry.data(rng)
    ok, _ = lifecycle.do_fit(hist, a, X, y, entry, rng.randint(0, 999), "A")
    if not ok:
        return
    P = probes(entry, X, rng)
    P = drop_near_ties(a, P)
    m = len(P)
    if m == 0:
        return
    models = [(a, "fitted")]
    p = hist.copy(a, "pickle")
    if p is not None:
        models.append((p, "unpickled"))
    c = hist.copy(a, "clone_with_fitted_parameters")
    if c is not None:
        models.append((c, "clone_with_fitted_parameters"))
    for obj, who in models:
        lifecycle.observe_all(hist, obj, entry, P, "RowPure", note=who + " whole batch")
        perm = list(range(m))
        rng.shuffle(perm)
        lifecycle.observe_all(hist, obj, entry, lifecycle.take(P, perm), "RowPure", note=who + " permuted batch")
        sub = sorted(rng.sample(range(m), max(1, m // 2)))
        lifecycle.observe_all(hist, obj, entry, lifecycle.take(P, sub), "RowPure", note=who + " sub-batch")
        for q in (range(m) if m <= 16 else rng.sample(range(m), 8)):        # every probe alone (rows of unseen buckets among them)
            lifecycle.observe_all(hist, obj, entry, lifecycle.take(P, [q]), "RowPure", note=who + " single row")
        lifecycle.observe_all(hist, obj, entry, P, "RowPure", note=who + " repeated call")
        # a bootstrap-like batch: rows drawn with repetition (for a frame: repeated index labels)
        dup = [rng.randrange(m) for _ in range(m)]
        dup[1] = dup[0]
        lifecycle.observe_all(hist, obj, entry, lifecycle.take(P, dup), "RowPure", note=who + " resampled batch")
        # a preallocated buffer: the same container object is filled with other rows between two calls
        B = P.copy()
        lifecycle.observe_all(hist, obj, entry, B, "RowPure", note=who + " buffer")
        perm2 = perm[1:] + perm[:1]
        if hasattr(B, "iloc"):
            for col in list(B.columns):
                B[col] = P[col].values[perm2]
        else:
            B[...] = P[perm2]
        lifecycle.observe_all(hist, obj, entry, B, "RowPure", note=who + " buffer refilled in place")
        if who == "fitted" and intruder(entry, obj, variant, rng):
            lifecycle.observe_all(hist, obj, entry, P, "RowPure", note=who + " after a second estimator sharing its sub-estimators was trained")
        # what an earlier call returned belongs to the caller: a later call on another batch of the same size (or another
        # method) must not rewrite it
        if who == "fitted":
            import copy as _copy
            import warnings as _w
            extra_methods = [mm for mm in ("predict_all", "predict_sorted", "transform_bins", "decision_path") if hasattr(obj, mm)]
            held = []
            for mth in list(entry.methods) + extra_methods:
                try:
                    with _w.catch_warnings():
                        _w.simplefilter("ignore")
                        r1 = getattr(obj, mth)(P)
                        held.append((mth, r1, _copy.deepcopy(r1)))
                        getattr(obj, mth)(lifecycle.take(P, perm))
                except Exception:
                    continue
            for mth, r1, snap in held:
                try:
                    if hasattr(r1, "toarray"):
                        same = bool((r1 != snap).nnz == 0)
                    elif hasattr(r1, "equals"):
                        same = bool(r1.equals(snap))
                    else:
                        same = bool(numpy.array_equal(numpy.asarray(r1), numpy.asarray(snap), equal_nan=True))
                except Exception:
                    same = True
                if not same:
                    hist.t.setdefault("driver_fail", []).append(("ResultKept", "%s: the result of an earlier call was rewritten by a later call" % mth))
        # a batch in single precision goes through (its own outputs are not compared: rounding), then the same float64
        # rows again: answering a query does not change the model
        if isinstance(P, numpy.ndarray) and P.dtype == numpy.float64:
            import warnings
            for mth in entry.methods:
                try:
                    with warnings.catch_warnings():
                        warnings.simplefilter("ignore")
                        getattr(obj, mth)(P.astype(numpy.float32))
                except Exception:
                    pass
            lifecycle.observe_all(hist, obj, entry, P, "RowPure", note=who + " after a float32 batch")
        # integer-valued rows handed over in an integer array (counts, pixel values): the same rows
        if isinstance(P, numpy.ndarray) and P.dtype.kind == "f" and numpy.array_equal(P, numpy.round(P)):
            lifecycle.observe_all(hist, obj, entry, P.astype(numpy.int64), "RowPure", note=who + " integer dtype batch")


# classes that, by design, train the very object they were given (documented wrappers): sharing it IS sharing the model
TRAINS_IN_PLACE = {"ClassifierAfterKMeans", "SkBaseTransformLearner", "SkBaseTransformStacking", "TransferTransformer"}


def intruder(entry, a, variant, rng):
    """The caller builds a second estimator around the SAME sub-estimator objects (same binner / base model instance) and
    trains it on other data.  Estimators that train clones are not affected by it."""
    import warnings
    if entry.name.split("[")[0] in TRAINS_IN_PLACE:
        return False
    sub = {k: v for k, v in a.get_params(deep=False).items() if hasattr(v, "get_params")}
    if not sub:
        return False
    other = entry.make(variant)
    other.set_params(**sub)
    X2, y2 = entry.data(rng)
    if isinstance(X2, numpy.ndarray) and X2.dtype.kind == "f":
        X2 = X2[::-1] * -2.0 + 7.0          # another relation between rows and targets: a model trained on it IS another model
    with warnings.catch_warnings():
        warnings.simplefilter("ignore")
        try:
            numpy.random.seed(rng.randint(0, 999))
            other.fit(X2, y2) if y2 is not None else other.fit(X2)
        except Exception:
            return False
    return True


def big_batch(ctx, entry, rng):
    import warnings
    a = entry.make(0)
    X, y = entry.data(rng)
    try:
        with warnings.catch_warnings():
            warnings.simplefilter("ignore")
            a.fit(X, y) if y is not None else a.fit(X)
    except Exception:
        return
    if not isinstance(X, numpy.ndarray) or X.dtype.kind != "f":
        return
    n = rng.choice([2500, 1025, 3333])
    B = X[numpy.array([rng.randrange(len(X)) for _ in range(n)])]
    B = drop_near_ties(a, B)
    n = len(B)
    rows = sorted(set([0, n - 1, n - 2, 1023, 1024, n // 2] + [rng.randrange(n) for _ in range(6)]))
    rows = [r for r in rows if 0 <= r < n]
    for mth in entry.methods:
        ctx.evaluations += 1
        try:
            with warnings.catch_warnings():
                warnings.simplefilter("ignore")
                whole = numpy.asarray(getattr(a, mth)(B))
                for r in rows:
                    one = numpy.asarray(getattr(a, mth)(B[r:r + 1]))
                    if not numpy.allclose(whole[r], one[0], rtol=1e-9, atol=1e-9, equal_nan=True):
                        ctx.violation("RowPure", "C04 " + entry.name, "%s: batch of %d rows vs single row" % (mth, n),
                                      dict(row=r, batch=numpy.asarray(whole[r]).tolist(), single=numpy.asarray(one[0]).tolist()))
                        break
        except Exception as e:       # noqa: BLE001
            ctx.skipped.append("%s.%s on a batch of %d rows: %r" % (entry.name, mth, n, e))


def run(ctx):
    boot.load()
    thorough = ctx.tier == "thorough"
    ctx.add_mc("Lifecycle", tlc.run("MC_Lifecycle", "MC_Lifecycle.cfg", workers=8, coverage=True))
    rng = ctx.rng
    traces = []
    tid = 0
    for entry in classes.entries():
        if not entry.fit or not entry.rowwise or not entry.methods:
            ctx.skipped.append("%s: no row-wise method exercised here" % entry.name)
            continue
        for rep in range(14 if thorough else (6 if "weights" in entry.name else 2)):
            tid += 1
            hist = lifecycle.History(tid, "C04 " + entry.name, "batch / permutation / sub-batch / single rows / pickle / clone-with-fitted")
            scenario(hist, entry, rng, rep % 2)
            ctx.case((entry.name, rep), sample=dict(kind="history", cls=entry.name,
                                                    events=[(e["a"], e.get("method", e.get("how", "")), e.get("note", "")) for e in hist.t["ev"][:9]]))
            for clause, detail in hist.t.pop("driver_fail", []):
                ctx.violation(clause, "C04 " + entry.name, "earlier result", detail)
            traces.append(hist.t)
    # batches beyond the block sizes of block-wise implementations (1024, ...): a few rows of the big batch alone
    for entry in classes.entries():
        if not entry.fit or not entry.rowwise or not entry.methods or not entry.name.startswith(("Piecewise", "KMeansL1L2", "DecisionTreeLogistic")):
            continue
        big_batch(ctx, entry, rng)
    lifecycle.validate(ctx, traces)
    ctx.exhaustive = False
    ctx.rule = ("Per class with a row-wise method: fit, then for the fitted object, its pickle round-trip and its "
                "clone_with_fitted_parameters copy: the probe batch (training rows, rows in unseen buckets / leaves, duplicates), a "
                "permutation, a sub-batch, single rows and a repeated call; every output row goes into the specification's memo "
                "keyed by <model signature, method, row>. ConstraintKMeans is exercised with balanced_predictions=False (the "
                "documented exception is not claimed). distinct = (class, repetition).")
    ctx.assumptions += ["'identical outputs' = same canonical id (1e-9): batch and single-row BLAS paths may differ in the last ulp"]


if __name__ == "__main__":
    raise SystemExit(main("C04", run))
