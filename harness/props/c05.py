"""C05 - QuantileLinearRegression fits, and scores with, the pinball loss of its quantile (spec: Pinball)."""
import warnings
import numpy
from .. import boot, tlc
from ..core import main

SITE = "mlmodel.QuantileLinearRegression"
QS = [(1, 4), (1, 2), (3, 4), (1, 5), (4, 5), (2, 5)]


def make(rng, fit_intercept):
    n = rng.randint(8, 12)
    xs = rng.sample(range(-10, 11), n)
    a, b = (rng.randint(-15, 15) if fit_intercept else 0), rng.choice([-3, -2, -1, 1, 2, 3])
    ys = [a + b * x + rng.randint(-12, 12) for x in xs]
    ws = [rng.choice([1, 1, 2]) for _ in xs]
    return xs, ys, ws


def fit(xs, ys, ws, q, fit_intercept, positive, weighted, dup, max_iter=100, wdtype=float, delta=0.0001):
    from mlinsights.mlmodel import QuantileLinearRegression
    if dup:         # integer weights as repeated rows
        xs2 = [x for x, w in zip(xs, ws) for _ in range(w)]
        ys2 = [y for y, w in zip(ys, ws) for _ in range(w)]
        X, y, sw = numpy.array(xs2, dtype=float).reshape((-1, 1)), numpy.array(ys2, dtype=float), None
    else:
        X, y = numpy.array(xs, dtype=float).reshape((-1, 1)), numpy.array(ys, dtype=float)
        sw = numpy.array(ws, dtype=wdtype) if weighted else None
    if len(xs) % 2:
        m = QuantileLinearRegression(quantile=q, max_iter=max_iter, fit_intercept=fit_intercept, positive=positive, delta=delta)
    else:       # configured after construction, as clone + set_params of a grid search does
        m = QuantileLinearRegression(quantile=0.5 if q != 0.5 else 0.25)
        m.set_params(quantile=q, max_iter=max_iter, fit_intercept=fit_intercept, positive=positive, delta=delta)
    with warnings.catch_warnings():
        warnings.simplefilter("ignore")
        m.fit(X, y, sample_weight=sw)
        sc = m.score(X, y, sample_weight=sw)
    return m, float(sc), (X, y, sw)


def one(tid, rng):
    qa, qb = rng.choice(QS)
    fit_intercept = rng.random() < 0.7
    positive = rng.random() < 0.2
    mode = rng.choice(["plain", "plain", "weighted", "dup"])
    xs, ys, ws = make(rng, fit_intercept)
    if mode == "plain":
        ws = [1] * len(xs)
    # heavy-tailed noise: two targets far above the rest (a quantile does not care how far), with a coarser IRLS floor
    outliers = (not positive) and fit_intercept and rng.random() < 0.25
    delta = 0.0001
    if outliers:
        for j in rng.sample(range(len(ys)), 2):
            ys[j] += 3000
        delta = 0.01
    # integer weights are given as floats or as an integer array; with positive=True (only the sign is claimed) any
    # number of IRLS passes, the first one included, must respect the constraint
    if positive and rng.random() < 0.5:
        xs = [x - 11 for x in xs]           # a feature whose values are all negative (log-probabilities, ...)
    wdtype = rng.choice([float, numpy.int64, numpy.int32])
    max_iter = rng.choice([1, 2, 100]) if positive else 100
    m, sc, (X, y, sw) = fit(xs, ys, ws, qa / qb, fit_intercept, positive, mode == "weighted", mode == "dup", max_iter, wdtype, delta)
    # the fit at the opposite quantile, scored with THIS quantile's loss
    from mlinsights.mlmodel import QuantileLinearRegression
    o, _, _ = fit(xs, ys, ws, 1 - qa / qb, fit_intercept, positive, mode == "weighted", mode == "dup", max_iter, wdtype, delta)
    probe = QuantileLinearRegression(quantile=qa / qb, fit_intercept=fit_intercept)
    probe.coef_, probe.intercept_ = o.coef_, o.intercept_
    with warnings.catch_warnings():
        warnings.simplefilter("ignore")
        so = float(probe.score(X, y, sample_weight=sw))
    s = float(numpy.ravel(m.coef_)[0])
    c = float(numpy.ravel(m.intercept_)[0]) if numpy.ndim(m.intercept_) else float(m.intercept_)
    # the same data set in another representation is a data set too: an integer-typed design with fractional targets,
    # a feature in small units (x * 2^-13).  The optimum is the same (up to the unit), and the fit validated by the
    # specification is within the stated tolerance of it: so must these be.
    extra = []
    if max_iter == 100 and not positive and not outliers and mode != "dup":
        sw2 = None if sw is None else sw
        y8 = y / 8.0

        def loss_of(mod, Xa):
            with warnings.catch_warnings():
                warnings.simplefilter("ignore")
                return float(mod.score(Xa, y8, sample_weight=sw2))

        def fitted(Xa):
            mod = QuantileLinearRegression(quantile=qa / qb, max_iter=100, fit_intercept=fit_intercept, delta=delta)
            with warnings.catch_warnings():
                warnings.simplefilter("ignore")
                mod.fit(Xa, y8, sample_weight=sw2)
            return mod
        try:
            ref = loss_of(fitted(X), X)
            Xi = X.astype(rng.choice([numpy.int64, numpy.int32]))
            li = loss_of(fitted(Xi), X)
            if not li <= 1.02 * ref + 0.004:
                extra.append(("NearOptimal", "integer-typed design, fractional targets: loss %.5f, float design %.5f" % (li, ref)))
            Xs = X * 2.0 ** -13
            ls = loss_of(fitted(Xs), Xs)
            if not ls <= 1.02 * ref + 0.004:
                extra.append(("NearOptimal", "feature in units of 2^-13: loss %.5f, in units of 1: %.5f" % (ls, ref)))
        except Exception as e:           # noqa: BLE001
            extra.append(("FitSucceeds", "%s: %s" % (type(e).__name__, str(e)[:160])))
    return dict(id=tid, X=xs, Y=ys, W=ws, qa=qa, qb=qb, fit_intercept=fit_intercept, positive=positive, full=max_iter == 100 and not outliers, outliers=outliers,
                s=int(round(s * 100)), c=int(round(c * 100)), score=int(round(sc * 100)), score_other=int(round(so * 100)),
                site=SITE, sig="q=%d/%d %s intercept=%s positive=%s" % (qa, qb, mode, fit_intercept, positive) + (" outliers" if outliers else ""), mode=mode,
                extra=extra)


def classify(t, v):
    clause = v.fails[0][0] if v.fails else "NotABehaviour"
    sig = "q=1/2" if t["qa"] * 2 == t["qb"] else "q!=1/2"
    return clause, sig + " " + t["mode"]


def run(ctx):
    boot.load(need_ext=False)
    thorough = ctx.tier == "thorough"
    r = ctx.add_mc("Pinball", tlc.run(
        "MC_Pinball", "SPECIFICATION Spec\nCONSTANTS MaxN = %d\n XVals = {0, 1, 2}\n YVals = {0, 1, 3}\n WVals = {1, 2}\n Quantiles <- MCQ\n"
        "INVARIANT VertexOptimal\nINVARIANT QuantileCount\n" % (4 if thorough else 3), workers=16, coverage=True, timeout=3000, heap="8g"))
    ctx.require_coverage(r, ["Pick"], "Pinball")
    rng = ctx.rng
    traces = []
    for k in range(1500 if thorough else 250):
        try:
            t = one(k + 1, rng)
        except Exception as e:
            ctx.violation("FitSucceeds", SITE, type(e).__name__, repr(e)[:200])
            continue
        ctx.case((tuple(t["X"]), tuple(t["Y"]), tuple(t["W"]), t["qa"], t["qb"], t["fit_intercept"], t["positive"], t["mode"]),
                 sample={k2: t[k2] for k2 in ("X", "Y", "W", "qa", "qb", "s", "c", "score", "mode")})
        for clause, detail in t.pop("extra"):
            ctx.violation(clause, SITE, ("q=1/2 " if t["qa"] * 2 == t["qb"] else "q!=1/2 ") + "representation", detail, case=t)
        traces.append(t)
    verdicts, st = tlc.validate("PinballTrace", "PinballTrace.cfg", traces, timeout=3000)
    ctx.states += st["states"]
    ctx.transitions += st["transitions"]
    ctx.verdicts(verdicts, {t["id"]: t for t in traces}, SITE, classify=classify)
    ctx.extra.setdefault("trace_runs", []).append(dict(spec="PinballTrace", traces=len(traces), **st))
    ctx.exhaustive = False
    ctx.rule = ("MC: vertex optimality and the quantile count for every small integer data set (n<=%d), weights {1,2}, q in "
                "{1/4,1/2,3/4}. C2S: seeded integer data sets (n 8-12, one feature, |x|<=10, noise +-12) x 6 quantiles x "
                "fit_intercept x positive x {unweighted, integer weights, the same weights as repeated rows}: the fitted line on a "
                "1e-2 grid, score, and the score of the 1-q fit under the q-loss are validated against the exact LP optimum "
                "computed by the specification." % (4 if thorough else 3))
    ctx.assumptions += ["max_iter=100 (a valid configuration; the default 10 is up to 11% off the optimum)",
                        "IRLS tolerance stated as a constant: Loss <= 1.02 * Opt + 1.5 (sized on 1800 probes: worst gap 0.7%)",
                        "with positive=True only the sign of the coefficient is claimed (the constrained optimum is not a vertex)"]


if __name__ == "__main__":
    raise SystemExit(main("C05", run))
