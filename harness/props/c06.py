"""C06 - KMeansL1L2: L1 is self-consistent in Manhattan geometry, L2 is exactly KMeans (spec: KMediansL1)."""
import warnings
import numpy
from .. import boot, tlc
from ..core import main

SITE = "mlmodel.KMeansL1L2(norm='L1')"
SITE2 = "mlmodel.KMeansL1L2(norm='L2')"


def enc_pts(A):
    out = []
    for row in numpy.asarray(A, dtype=float):
        if not numpy.all(numpy.isfinite(row)):
            out.append([-999] * len(row))
        else:
            v = row * 2
            out.append([int(round(x)) if abs(x - round(x)) < 1e-6 else -998 for x in v])
    return out


def enc_val(v):
    v = float(v) * 2
    return int(round(v)) if numpy.isfinite(v) and abs(v - round(v)) < 1e-6 else -998


class Wrap:
    """Wrap the two module globals _kmeans_single_lloyd looks up at call time."""

    def __enter__(self):
        from mlinsights.mlmodel import kmeans_l1 as M
        self.M = M
        self.e0, self.m0 = M._labels_inertia, M._centers_dense
        self.ev = ev = []

        # the wrappers follow whatever signature the helpers have (the arguments they need are found by name)
        import inspect

        def E(*a, **kw):
            labels, inertia = self.e0(*a, **kw)
            try:
                centers = inspect.signature(self.e0).bind(*a, **kw).arguments["centers"]
                ev.append(dict(a="E", centers=enc_pts(centers), labels=[int(v) for v in labels], inertia=enc_val(inertia)))
            except (KeyError, TypeError):
                pass
            return labels, inertia

        def Mst(*a, **kw):
            c = self.m0(*a, **kw)
            ev.append(dict(a="M", centers=enc_pts(c)))
            return c
        M._labels_inertia, M._centers_dense = E, Mst
        return ev

    def __exit__(self, *a):
        self.M._labels_inertia, self.M._centers_dense = self.e0, self.m0


def probes_of(model, X, rng, d):
    lo, hi = int(X.min()) - 1, int(X.max()) + 1
    P = numpy.array([[rng.randint(lo, hi) for _ in range(d)] for _ in range(6)] + [list(X[0])], dtype=X.dtype)
    pred = model.predict(P)
    tr = model.transform(P)
    return [dict(x=[int(2 * v) for v in P[q]], pred=int(pred[q]), dists=[enc_val(v) for v in tr[q]]) for q in range(len(P))]


def lloyd_trace(tid, Xi, k, init, max_iter, rng, dtype=numpy.float64):
    """Xi: integer data (list of rows); init: integer centres (list of rows)."""
    from mlinsights.mlmodel import KMeansL1L2
    X = numpy.array(Xi, dtype=dtype)
    d = X.shape[1]
    t = dict(id=tid, kind="lloyd", d=d, k=k, max_iter=max_iter, X=[[2 * v for v in r] for r in Xi],
             init=[[2 * v for v in r] for r in init], site=SITE,
             sig="init=array dup_init=%s" % (len(set(map(tuple, init))) < k))
    with warnings.catch_warnings():
        warnings.simplefilter("ignore")
        with Wrap() as ev:
            try:
                km = KMeansL1L2(n_clusters=k, norm="L1", init=numpy.array(init, dtype=dtype), n_init=1, max_iter=max_iter,
                                tol=rng.choice([1e-4, 1e-4, 0.05, 0.25, 1.0]))
                X0 = X.copy()
                km.fit(X)
                ev.append(dict(a="result", centers=enc_pts(km.cluster_centers_), labels=[int(v) for v in km.labels_],
                               inertia=enc_val(km.inertia_), probes=probes_of(km, X, rng, d),
                               untouched=bool(numpy.array_equal(X, X0))))
            except Exception as e:
                ev.append(dict(a="raised", err=repr(e)[:100]))
    t["ev"] = list(ev)
    return t


def final_trace(tid, Xi, k, init, seed, n_init, rng, dtype):
    from mlinsights.mlmodel import KMeansL1L2
    X = numpy.array(Xi, dtype=dtype)
    d = X.shape[1]
    t = dict(id=tid, kind="final", d=d, k=k, max_iter=10, X=[[2 * v for v in r] for r in Xi], init=[[0] * d] * k, site=SITE,
             sig="init=%s" % init)
    with warnings.catch_warnings():
        warnings.simplefilter("ignore")
        try:
            km = KMeansL1L2(n_clusters=k, norm="L1", init=init, n_init=n_init, max_iter=10, random_state=seed,
                            tol=rng.choice([1e-4, 0.05, 0.25, 1.0]))
            if rng.random() < 0.4:
                # an earlier life of the instance: other data, every accessor used once
                t["sig"] += " refit"
                Xo = (X[::-1] * 3 + 11).astype(dtype)
                try:
                    km.fit(Xo)
                    km.predict(Xo), km.transform(Xo)
                except Exception:
                    pass
            km.fit(X)
            t["ev"] = [dict(a="result", centers=enc_pts(km.cluster_centers_), labels=[int(v) for v in km.labels_],
                            inertia=enc_val(km.inertia_), probes=probes_of(km, X, rng, d))]
        except Exception as e:
            t["kind"] = "lloyd"
            t["ev"] = [dict(a="raised", err=repr(e)[:100])]
    return t


def l2_trace(tid, Xi, k, init, seed, rng, dtype):
    from mlinsights.mlmodel import KMeansL1L2
    from sklearn.cluster import KMeans
    X = numpy.array(Xi, dtype=dtype)
    d = X.shape[1]
    kw = dict(n_clusters=k, init=init, n_init=3, max_iter=20, random_state=seed)
    with warnings.catch_warnings():
        warnings.simplefilter("ignore")
        if rng.random() < 0.3:      # the seed given as a generator object: both consume it in the same way
            a = KMeansL1L2(norm="L2", **dict(kw, random_state=numpy.random.RandomState(seed))).fit(X)
            b = KMeans(**dict(kw, random_state=numpy.random.RandomState(seed))).fit(X)
        else:
            a = KMeansL1L2(norm="L2", **kw).fit(X)
            b = KMeans(**kw).fit(X)
        P = numpy.array([[rng.randint(-1, 7) for _ in range(d)] for _ in range(6)], dtype=dtype)
        ev = dict(a="l2", eq_labels=bool(numpy.array_equal(a.labels_, b.labels_)),
                  eq_centers=bool(numpy.array_equal(a.cluster_centers_, b.cluster_centers_)),
                  eq_inertia=bool(a.inertia_ == b.inertia_),
                  eq_predict=bool(numpy.array_equal(a.predict(P), b.predict(P))),
                  eq_transform=bool(numpy.array_equal(a.transform(P), b.transform(P))))
    return dict(id=tid, kind="l2", d=d, k=k, max_iter=10, X=[[2 * v for v in r] for r in Xi], init=[[0] * d] * k,
                site=SITE2, sig="init=%s" % init, ev=[ev])


def big_batches(ctx, rng):
    """transform / predict on batches of thousands of rows (block-wise implementations have edges there): compared with
    the Manhattan distances computed directly"""
    from mlinsights.mlmodel import KMeansL1L2
    for (n, k, d) in ((9001, 4, 2), (523, 10, 20), (70001, 2, 1)):
        X = numpy.array([[rng.randint(0, 9) for _ in range(d)] for _ in range(60)], dtype=numpy.float64)
        with warnings.catch_warnings():
            warnings.simplefilter("ignore")
            km = KMeansL1L2(n_clusters=k, norm="L1", n_init=2, random_state=0, max_iter=10).fit(X)
            Q = numpy.array([[rng.randint(-2, 11) for _ in range(d)] for _ in range(n)], dtype=numpy.float64)
            want = numpy.abs(Q[:, None, :] - km.cluster_centers_[None, :, :]).sum(axis=2)
            ctx.evaluations += 1
            try:
                got = km.transform(Q)
                lab = km.predict(Q)
            except Exception as e:
                ctx.violation("TransformIsManhattan", SITE, "batch of %d rows" % n, repr(e)[:200])
                continue
            if got.shape != want.shape or not numpy.allclose(got, want, rtol=0, atol=1e-9):
                ctx.violation("TransformIsManhattan", SITE, "batch of %d rows" % n, "transform differs from the Manhattan distances")
            if not numpy.allclose(want[numpy.arange(n), lab], want.min(axis=1), rtol=0, atol=1e-9):
                ctx.violation("PredictIsNearest", SITE, "batch of %d rows" % n, "predict is not a nearest centre")
            # the same points with an integer dtype (the values are integers; the centres are medians, often x.5)
            for dt in (numpy.int64, numpy.int32):
                m = min(n, 600)
                ctx.evaluations += 1
                try:
                    lab_i = km.predict(Q[:m].astype(dt))
                    got_i = km.transform(Q[:m].astype(dt))
                except Exception as e:
                    ctx.violation("PredictIsNearest", SITE, "integer-typed batch", repr(e)[:200])
                    continue
                if not numpy.allclose(want[numpy.arange(m), lab_i], want[:m].min(axis=1), rtol=0, atol=1e-9):
                    ctx.violation("PredictIsNearest", SITE, "integer-typed batch", "predict(%s points) is not a nearest centre" % dt.__name__)
                if got_i.shape != want[:m].shape or not numpy.allclose(got_i, want[:m], rtol=0, atol=1e-9):
                    ctx.violation("TransformIsManhattan", SITE, "integer-typed batch", "transform(%s points) differs" % dt.__name__)


RESULT_CLAUSES = {"NearestLabel", "InertiaIsSum", "CentresInBox", "PredictIsNearest", "TransformIsManhattan", "L2IsKMeans"}


def classify(t, v):
    if v.fails:
        return v.fails[0][0], t.get("sig", "")
    return "NotABehaviour", t.get("sig", "")


def run(ctx):
    boot.load()
    thorough = ctx.tier == "thorough"
    invs = "INVARIANT FitSucceeds\nINVARIANT NearestLabel\nINVARIANT InertiaIsSum\nINVARIANT CentresInBox\n"
    cfg1 = ("SPECIFICATION Spec\nCONSTANTS Lattice = %s\n Dim = 1\n MaxPts = %d\n MaxK = 3\n MaxIter = 3\n StopRule = \"code\"\n DEV_EmptyClusterNaN = FALSE\n"
            % (("{0, 2, 4, 6, 8}", 5) if thorough else ("{0, 2, 4, 6}", 5)))
    cfg2 = ("SPECIFICATION Spec\nCONSTANTS Lattice = {0, 2, 4}\n Dim = 2\n MaxPts = %d\n MaxK = %d\n MaxIter = 3\n StopRule = \"code\"\n DEV_EmptyClusterNaN = FALSE\n"
            % ((4, 3) if thorough else (4, 2)))
    r = ctx.add_mc("KMediansL1 d=1", tlc.run("KMediansL1", cfg1 + invs, workers=16, coverage=True, timeout=2400, heap="8g"))
    ctx.require_coverage(r, ["DoE", "DoM", "DoTrack", "DoFinal"], "KMediansL1")
    ctx.add_mc("KMediansL1 d=2", tlc.run("KMediansL1", cfg2 + invs, workers=16, timeout=2400, heap="8g"))
    # the requirements must not depend on when the loop stops: same model with an arbitrary stopping rule
    ctx.add_mc("KMediansL1 d=1 StopRule=any", tlc.run("KMediansL1", cfg1.replace('"code"', '"any"') + invs, workers=16,
                                                       timeout=2400, heap="8g"))
    ctx.add_mc("KMediansL1[DEV_EmptyClusterNaN]", tlc.run(
        "KMediansL1", "SPECIFICATION Spec\nCONSTANTS Lattice = {0, 2, 4}\n Dim = 1\n MaxPts = 3\n MaxK = 2\n MaxIter = 3\n StopRule = \"code\"\n"
        " DEV_EmptyClusterNaN = TRUE\nINVARIANT FitSucceeds\n", workers=4), expect_violation="FitSucceeds")
    rng = ctx.rng
    groups = {}
    tid = 0
    # ---- spec -> code: initial states enumerated by TLC (data set x k x initial centres), trajectory validated
    stride = 6 if thorough else 40
    for dim, cfg in ((1, cfg1), (2, cfg2)):
        res = tlc.must_ok(tlc.run("MC_KMediansL1", cfg + "CONSTRAINT OnlyInit\nCONSTRAINT Emit\n", workers=1, timeout=1500, heap="6g"),
                          "emit KMediansL1")
        seen = set()
        for case in res.json:
            key = (tuple(map(tuple, case["X"])), case["k"], tuple(map(tuple, case["init"])))
            if key in seen:
                continue
            seen.add(key)
            if (hash(key) + ctx.seed) % stride:
                continue
            Xi = [[v // 2 for v in r] for r in case["X"]]
            init = [[v // 2 for v in r] for r in case["init"]]
            tid += 1
            mi = 3
            ctx.case(("s2c", key), nontrivial=case["k"] >= 2,
                     sample=dict(kind="s2c", X=Xi, k=case["k"], init=init))
            t = lloyd_trace(tid, Xi, case["k"], init, mi, rng)
            groups.setdefault((dim, mi), []).append(t)
    # ---- code -> spec: random larger data
    for it in range(600 if thorough else 120):
        d = rng.randint(1, 3 if thorough else 2)
        k = rng.randint(1, 5)
        n = rng.randint(k, 40)
        R = rng.choice([2, 4, 9])
        Xi = [[rng.randint(0, R) for _ in range(d)] for _ in range(n)]
        if len(set(map(tuple, Xi))) < k:
            continue
        dtype = rng.choice([numpy.float64, numpy.float64, numpy.float32])
        tid += 1
        mode = rng.choice(["array", "array", "k-means++", "random", "l2"])
        ctx.case(("c2s", mode, tuple(map(tuple, Xi)), k), nontrivial=k >= 2)
        if mode == "array":
            init = [list(rng.choice(Xi)) if rng.random() < 0.7 else [rng.randint(0, R) for _ in range(d)] for _ in range(k)]
            mi = rng.choice([1, 3, 3])
            groups.setdefault((d, mi), []).append(lloyd_trace(tid, Xi, k, init, mi, rng, dtype))
        elif mode == "l2":
            try:
                groups.setdefault((d, 3), []).append(l2_trace(tid, Xi, k, rng.choice(["k-means++", "random"]), rng.randint(0, 999), rng, dtype))
            except Exception as e:
                ctx.violation("L2IsKMeans", SITE2, "call", repr(e))
        else:
            groups.setdefault((d, 3), []).append(final_trace(tid, Xi, k, mode, rng.randint(0, 999), rng.choice([1, 3]), rng, dtype))
    for (d, mi), trs in sorted(groups.items()):
        cfg = ("SPECIFICATION TSpec\nCONSTANTS Lattice = {}\n Dim = %d\n MaxPts = 0\n MaxK = 0\n MaxIter = %d\n StopRule = \"any\"\n DEV_EmptyClusterNaN = FALSE\n"
               "CHECK_DEADLOCK FALSE\n" % (d, mi))
        # every step-by-step trace has a companion that carries only what fit returned (kind "final"): the clauses of the
        # property are decided on it, whatever the loop looks like
        comp = {}
        for t in list(trs):
            if t["kind"] == "lloyd" and t["ev"] and t["ev"][-1].get("a") == "result":
                c = dict(t, id="%sf" % t["id"], kind="final", init=[[0] * d] * t["k"], ev=[t["ev"][-1]])
                comp[t["id"]] = c["id"]
                trs.append(c)
        verdicts, st = tlc.validate("KMediansTrace", cfg, trs, timeout=2400)
        ctx.states += st["states"]
        ctx.transitions += st["transitions"]
        demanded = {tid_: v for tid_, v in verdicts.items() if tid_ not in comp}
        stepwise = {tid_: v for tid_, v in verdicts.items() if tid_ in comp}
        byid = {t["id"]: t for t in trs}
        ctx.verdicts(demanded, byid, SITE, classify=classify)
        for tid_, v in stepwise.items():
            ctx.traces += 1
            if v.ok:
                continue
            clauses = {f[0] for f in v.fails}
            if clauses & RESULT_CLAUSES:
                ctx.violation(sorted(clauses & RESULT_CLAUSES)[0], SITE, byid[tid_]["sig"], v.describe(), case=byid[tid_])
            elif verdicts[comp[tid_]].ok:
                # the loop is not the modelled one (other update rule, other helpers) but what fit returned satisfies every clause
                ctx.model_drift("KMeansL1L2(norm='L1'): the Lloyd loop is not the modelled E / M sequence (%s)"
                                % ",".join(sorted(clauses) or ["NotABehaviour"]), SITE, v.describe())
        ctx.extra.setdefault("trace_runs", []).append(dict(spec="KMediansTrace", dim=d, max_iter=mi, traces=len(trs), **st))
        for t in trs:
            for e in t["ev"]:
                if e.get("a") == "result" and e.get("untouched") is False:
                    ctx.violation("InputUntouched", SITE, t["sig"], "X modified by fit", case=t)
    big_batches(ctx, rng)
    ctx.exhaustive = False
    ctx.rule = ("MC: every sorted data set on the lattice (1-D: <=5 points; 2-D 3x3: <=4 points) x k x every tuple of initial "
                "centres on the lattice (duplicate centres -> empty clusters), relocation ties open. Spec->code: 1/%d of those "
                "initial states replayed with init=<array>, the E/M trajectory recorded by wrapping the module globals and "
                "validated step by step; code->spec: random data (n<=40, d<=3, k<=5, duplicates, float32) with array / "
                "'k-means++' / 'random' init and the norm='L2' comparison with scikit-learn. non-trivial = k >= 2." % stride)
    ctx.assumptions += ["integer-valued data, so medians, Manhattan distances and inertia are exact after doubling",
                        "uniform sample weights (non-uniform weights raise NotImplementedError in the code by design)",
                        "traces are validated with StopRule = any: the iteration at which the code stops is not constrained "
                        "(the property does not depend on it; TLC checks the requirements under both rules)"]


if __name__ == "__main__":
    raise SystemExit(main("C06", run))
