"""C07 - ConstraintKMeans produces clusters of equal size (specs: Quota, QuotaGain; hook H1)."""
import os
import numpy
from .. import boot, tlc
from ..core import main

SITE_D = "ConstraintKMeans strategy=distance"
SITE_G = "ConstraintKMeans strategy=gain"
SITE_W = "ConstraintKMeans strategy=weights"


class Sink:
    def __enter__(self):
        from mlinsights import _verif
        self.v = _verif
        self.old = _verif.SINK
        _verif.SINK = self.events = []
        return self.events

    def __exit__(self, *a):
        self.v.SINK = self.old


def split_calls(events):
    """Cut the event stream of one fit/predict into association calls."""
    calls, cur = [], None
    for name, f in events:
        if name in ("distance_begin", "gain_begin"):
            cur = dict(kind="distance" if name == "distance_begin" else "gain", n=f["n"], k=f["k"], ev=[])
            calls.append(cur)
        if cur is None:
            continue   # a switch event outside a call cannot happen; ignore defensively
        e = dict(a=name)
        e.update(f)
        cur["ev"].append(e)
    return calls


def run_model(rng, n, k, d, strategy, kmeans0, seed, max_iter, balanced):
    from mlinsights.mlmodel import ConstraintKMeans
    R = rng.choice([2, 3, 6])
    X = numpy.array([[rng.randint(0, R) for _ in range(d)] for _ in range(n)], dtype=numpy.float64)
    km = ConstraintKMeans(n_clusters=k, strategy=strategy, kmeans0=kmeans0, random_state=seed,
                          max_iter=max_iter, balanced_predictions=balanced, n_init=2)
    return km, X


def classify(t, v):
    if v.reject:
        why = v.reject[1] or {}
        ev = why.get("event", {}) if isinstance(why, dict) else {}
        if isinstance(ev, dict) and ev.get("a") == "gain_begin":
            return "QuotaSetup", "caps are not {0,1} summing to n - ave*k"
        return "NotABehaviour", "event %s" % (ev.get("a") if isinstance(ev, dict) else "?")
    clause, _, det = v.fails[0]
    if clause in ("Balanced", "CallSucceeds") and isinstance(det, dict) and det.get("exhausted") is True:
        return "Balanced", "swap-exhaustion"
    return clause, t.get("sig", "")


def s2c_distance(ctx, count):
    """Spec -> code: TLC behaviours of Quota replayed exactly.  Point p is the scaled unit vector s_p*e_p and the
    centres are tiny vectors whose p-th coordinate encodes p's preference rank, so ANY processing order and ANY
    preference profile the model explores is realised geometrically; the random adjacent swaps of
    _randomize_index are disabled for the replay (numpy.random.rand wrapped to return zeros)."""
    from mlinsights.mlmodel._kmeans_constraint_ import constraint_predictions
    import glob, os, re, shutil
    out = os.path.join(tlc.SCR, "sim-c07-%d" % os.getpid())
    shutil.rmtree(out, ignore_errors=True)
    os.makedirs(out)
    cfg = "SPECIFICATION Spec\nCONSTANTS MaxN = 9\n MaxK = 4\n DEV_QuotaLE = FALSE\nINVARIANT Balanced\n"
    res = tlc.run("Quota", cfg, workers=1, simulate="file=%s/tr,num=%d" % (out, count), depth=40,
                  seed=ctx.seed + 11, timeout=600)
    if res.error and "timeout" in str(res.error):
        raise tlc.TLCError("simulate failed: %s" % res.error)
    done = 0
    for path in sorted(glob.glob(out + "/tr*")):
        txt = open(path).read()
        states = re.split(r"\n\\\* <", txt)
        steps = []      # (action, labels tuple)
        n = k = None
        for st in states:
            m = re.match(r"(\w+) ", st)
            act = m.group(1) if m else "Init"
            ml = re.search(r"labels = <<(.*?)>>", st, re.S)
            mn = re.search(r"/\\ n = (\d+)", st)
            mk = re.search(r"/\\ k = (\d+)", st)
            if not (ml and mn and mk):
                continue
            n, k = int(mn.group(1)), int(mk.group(1))
            lab = tuple(int(x) for x in ml.group(1).replace("\n", " ").split(",") if x.strip())
            steps.append((act, lab))
        if not steps or n is None:
            continue
        # reconstruct the assignment sequence (p, c) and drop the switch phase
        order, prev = [], steps[0][1]
        final_assign = None
        for act, lab in steps[1:]:
            if act in ("AssignQuota", "AssignExtra"):
                p = [i for i in range(n) if prev[i] != lab[i]][0]
                order.append((p, lab[p] - 1))
                final_assign = lab
            prev = lab
        if len(order) != n:
            continue     # behaviour cut by the depth bound before every point was placed
        eps = 1e-3
        X = numpy.zeros((n, n))
        C = numpy.zeros((k, n))
        for rank, (p, c) in enumerate(order):
            X[p, p] = 1.0 + 0.5 * rank                 # processed in ascending distance = this order
            pref = [c] + [q for q in range(k) if q != c]
            for r, q in enumerate(pref):
                C[q, p] = -eps * r / X[p, p]
        orig = numpy.random.rand
        numpy.random.rand = lambda *a: numpy.zeros(a)
        numpy.random.seed(1)
        try:
            with Sink() as ev:
                labels, _, _ = constraint_predictions(X, C, strategy="distance")
        except Exception as e:
            MECH.append(("s2c: constraint_predictions cannot be driven as modelled", SITE_D, repr(e)[:200]))
            continue
        finally:
            numpy.random.rand = orig
        done += 1
        ctx.traces += 1
        ctx.case(("s2c", n, k, tuple(order)), nontrivial=n % k != 0,
                 sample=dict(kind="s2c-distance", n=n, k=k, assignments=order))
        assigned = [e for nm, e in ev if nm == "assigned"]
        got_seq = [(e["p"], e["c"]) for nm, e in ev if nm in ("assign_quota", "assign_extra")]
        if got_seq != order:
            MECH.append(("SameBehaviour", SITE_D, dict(got=got_seq[:8], want=order[:8])))
        elif assigned and tuple(x + 1 for x in assigned[0]["labels"]) != final_assign:
            MECH.append(("SameBehaviour", SITE_D, dict(got=assigned[0]["labels"], want=final_assign)))
    shutil.rmtree(out, ignore_errors=True)
    return done


def record_fit(ctx, rng, it, km, X, n, k, d, strategy, kmeans0, seed, max_iter, balanced, dtr, gtr, ftr, big=False):
    """fit + predict one model under the hooks; append association / fit / predict traces."""
    site = SITE_D if strategy == "distance" else (SITE_G if strategy == "gain" else SITE_W)
    sig = "fit kmeans0=%s n%%k=%s" % (kmeans0, "0" if n % k == 0 else ("1" if n % k == 1 else ">=2"))
    ctx.case((n, k, d, strategy, kmeans0, seed, max_iter, X.tobytes()), nontrivial=n > k)
    numpy.random.seed(seed)
    raised = None
    with Sink() as ev:
        try:
            km.fit(X)
        except AssertionError as e:
            raised = "AssertionError: " + str(e)[:80]
        except Exception as e:
            raised = repr(e)[:120]
    calls = split_calls(ev)
    if raised is not None:
        if calls:
            calls[-1]["ev"].append(dict(a="raised", err=raised))
        else:
            ctx.violation("CallSucceeds", site, sig, raised, case=dict(X=X.tolist(), k=k))
    for c in calls:
        c.update(id="%s.%d" % (it, len(dtr) + len(gtr)), site=site, sig=sig)
        (dtr if c["kind"] == "distance" else gtr).append(c)
    if raised is not None:
        return
    lab = [int(v) for v in km.labels_]
    ftr.append(dict(id="fit%s" % it, kind="fit", n=n, k=k, labels=lab, balanced=False, dist=[], sized=strategy != "weights",
                    finite=bool(numpy.all(numpy.isfinite(km.cluster_centers_))),
                    n_iter=int(km.n_iter_), max_iter=int(max_iter), site=site, sig=sig))
    # predictions: a batch of any size, then (balanced models) a batch smaller than k with a repeated point
    m = rng.randint(1, 20) if rng.random() < 0.4 else rng.randint(k, 20)
    Xq = numpy.array([[rng.randint(0, 6) for _ in range(d)] for _ in range(m)], dtype=numpy.float64)
    batches = [("", Xq)]
    if balanced and k >= 3:
        m2 = rng.randint(2, k - 1)
        Xs = numpy.array([[rng.randint(0, 6) for _ in range(d)] for _ in range(m2)], dtype=numpy.float64)
        Xs[1] = Xs[0]
        batches.append(("s", Xs))
    if balanced and big:
        # a batch of more than a thousand rows, most of them near one centre (sizes only: the association trace of such
        # a batch is not recorded)
        mb = 1025 + rng.randint(0, 40)
        Xb = numpy.array([[rng.randint(0, 1) for _ in range(d)] for _ in range(mb - 12)] +
                         [[rng.randint(0, 6) for _ in range(d)] for _ in range(12)], dtype=numpy.float64)
        batches.append(("b", Xb))
    for tag, Xq in batches:
        record_predict(ctx, "%s%s" % (it, tag), km, Xq, k, balanced, site, dtr, gtr, ftr, assoc=Xq.shape[0] <= 100)
    if strategy != "weights" and not big:
        # the option is switched on the fitted model (no refit): predictions follow the option as it is now
        km.set_params(balanced_predictions=not balanced)
        m3 = rng.randint(k, 16)
        X3 = numpy.array([[rng.randint(0, 6) for _ in range(d)] for _ in range(m3)], dtype=numpy.float64)
        record_predict(ctx, "%st" % it, km, X3, k, not balanced, site, dtr, gtr, ftr)
        km.set_params(balanced_predictions=balanced)


def record_predict(ctx, it, km, Xq, k, balanced, site, dtr, gtr, ftr, assoc=True):
    m = Xq.shape[0]
    psig = "predict balanced=%s m%%k=%s%s" % (balanced, "0" if m % k == 0 else ("1" if m % k == 1 else ">=2"), " m<k" if m < k else "")
    praised = None
    with Sink() as ev:
        try:
            pl = km.predict(Xq)
        except AssertionError as e:
            praised = "AssertionError: " + str(e)[:80]
        except Exception as e:
            praised = repr(e)[:120]
    calls = split_calls(ev) if assoc else []
    if praised is not None:
        if calls:
            calls[-1]["ev"].append(dict(a="raised", err=praised))
        else:
            ctx.violation("CallSucceeds", site, psig, praised, case=dict(X=Xq.tolist()[:50], k=k))
    for c in calls:
        c.update(id="%s.p%d" % (it, len(dtr) + len(gtr)), site=site, sig=psig)
        (dtr if c["kind"] == "distance" else gtr).append(c)
    if praised is not None:
        return
    dist = []
    if not balanced:
        D = ((Xq[:, None, :] - km.cluster_centers_[None, :, :]) ** 2).sum(axis=2)
        dist = [[int(round(v * 2 ** 20)) for v in row] for row in D]
    ftr.append(dict(id="pred%s" % it, kind="predict", n=m, k=k, labels=[int(v) for v in pl], balanced=balanced, sized=True,
                    dist=dist, finite=True, n_iter=0, max_iter=0, site=site, sig=psig))


def known_repros(ctx, rng, dtr, gtr, ftr):
    """The recorded inputs of the open finding 'swap-exhaustion' (known_findings.json), re-run on every check so that
    the finding is reported for as long as it exists - and stops being reported when it is repaired."""
    from mlinsights.mlmodel import ConstraintKMeans
    for seed in (343, 356):
        rs = numpy.random.RandomState(seed)
        k = rs.randint(2, 6)
        n = rs.randint(k, 12)
        X = rs.randint(0, 4, size=(n, 2)).astype(float)
        km = ConstraintKMeans(n_clusters=k, strategy="gain", kmeans0=False, random_state=seed, max_iter=4)
        record_fit(ctx, rng, "repro%d" % seed, km, X, n, k, 2, "gain", False, seed, 4, False, dtr, gtr, ftr)


class ScriptedState:
    """stands for the RandomState handed to the quota set-up: returns a scripted sequence of cluster indices"""

    def __init__(self, seq):
        self.seq = list(seq)

    def randint(self, lo, hi=None, size=None):
        return self.seq.pop(0) if self.seq else 0


def _parse_states(txt):
    """states of a TLC -simulate behaviour file: list of (action, dict of variable -> text)"""
    import re
    out = []
    for chunk in re.split(r"\n\\\* <", txt):
        m = re.match(r"(\w+) ", chunk)
        act = m.group(1) if m else "Init"
        vs = {}
        for vm in re.finditer(r"/\\ (\w+) = ((?:.|\n)*?)(?=\n/\\ |\Z)", chunk):
            vs[vm.group(1)] = vm.group(2).strip()
        if vs:
            out.append((act, vs))
    return out


def _ints(text):
    import re
    return [int(v) for v in re.findall(r"-?\d+", text)]


def s2c_gain(ctx, count):
    """Spec -> code for strategy 'gain': simulated QuotaGain behaviours (initial labelling, caps, sequence of Move /
    XSwap / Enqueue decisions) are realised geometrically - point p is the unit vector e_p and centre c has p-th coordinate
    -eps*G[p,c]/2, so the gain of the pair (p, c) is eps*G[p,c] - with gains solved (linear programme) so that the code's
    sorted pair list visits the pairs in the behaviour's order and takes the same exchange decisions; the quota set-up is
    steered by a scripted random state.  The code must then emit exactly the behaviour's decisions."""
    import glob, os, shutil
    from scipy.optimize import linprog
    from mlinsights.mlmodel import _kmeans_constraint_ as KC
    out = os.path.join(tlc.SCR, "sim-c07g-%d" % os.getpid())
    shutil.rmtree(out, ignore_errors=True)
    os.makedirs(out)
    cfg = ("SPECIFICATION Spec\nCONSTANTS MaxN = 7\n MaxK = 3\n ExploreSwitch = FALSE\n DEV_CapsAsCoded = FALSE\n"
           "INVARIANT Histogram\n")
    res = tlc.run("QuotaGain", cfg, workers=1, simulate="file=%s/tr,num=%d" % (out, count), depth=60, seed=ctx.seed + 23, timeout=900)
    done = skipped = 0
    for path in sorted(glob.glob(out + "/tr*")):
        states = _parse_states(open(path).read())
        if not states or states[-1][1].get("phase") not in ('"switch"', '"done"'):
            continue
        n, k = int(states[0][1]["n"]), int(states[0][1]["k"])
        lab0 = _ints(states[0][1]["labels"])
        caps = None
        acts = []        # (kind, p, dest, q) 1-based
        prev_lab, prev_moved = lab0, set()
        enq_order = {}   # (cur, dest) -> list of waiting points in enqueue order
        ok = True
        for act, vs in states[1:]:
            lab = _ints(vs["labels"])
            moved = set(_ints(vs["moved"]))
            if act == "Setup":
                caps = _ints(vs["leftclose"])
            elif act in ("DoMove", "DoXSwap", "DoEnqueue"):
                if act == "DoEnqueue":
                    # which pair left `todo`: the point whose transfer set grew is not directly visible: use todo difference
                    pass
                acts.append((act, prev_lab, lab, prev_moved, moved, vs))
            prev_lab, prev_moved = lab, moved
        if caps is None:
            continue
        # reconstruct (p, dest[, q]) per action from consecutive states (todo sets)
        seq = []
        prev_todo = None
        st_todo = [set(zip(*[iter(_ints(vs["todo"]))] * 2)) for a_, vs in states]
        for idx in range(1, len(states)):
            act = states[idx][0]
            if act not in ("DoMove", "DoXSwap", "DoEnqueue"):
                continue
            gone = st_todo[idx - 1] - st_todo[idx]
            if len(gone) != 1:
                ok = False
                break
            (p, dest), = gone
            lab_b, lab_a = _ints(states[idx - 1][1]["labels"]), _ints(states[idx][1]["labels"])
            cur = lab_b[p - 1]
            q = None
            if act == "DoXSwap":
                ch = [i + 1 for i in range(n) if lab_b[i] != lab_a[i] and i + 1 != p]
                q = ch[0] if ch else None
                if q is None:
                    ok = False
                    break
            seq.append((act, p, cur, dest, q))
        if not ok or not seq:
            continue
        # gains: one variable per acted pair, increasing along the behaviour; exchange decisions
        m = len(seq)
        A, b = [], []
        delta = 0.02
        for i in range(m - 1):
            row = [0.0] * m
            row[i], row[i + 1] = 1.0, -1.0
            A.append(row)
            b.append(-delta)
        waiting = {}
        feasible = True
        for i, (act, p, cur, dest, q) in enumerate(seq):
            if act == "DoMove":
                continue
            lst = [j for j in waiting.get((dest, cur), []) if seq[j][1] not in _moved_before(seq, i)]
            if act == "DoXSwap":
                if not lst or seq[lst[0]][1] != q:
                    feasible = False          # TLC exchanged with a point that is not the head of the sorted list
                    break
                row = [0.0] * m
                row[i] += 1.0
                row[lst[0]] += 1.0
                A.append(row)
                b.append(-delta)              # g_head + gain < 0
            else:
                if lst:
                    row = [0.0] * m
                    row[i] -= 1.0
                    row[lst[0]] -= 1.0
                    A.append(row)
                    b.append(-delta)          # g_head + gain >= delta
                waiting.setdefault((cur, dest), []).append(i)
        if not feasible:
            skipped += 1
            continue
        lp = linprog([0.0] * m, A_ub=A, b_ub=b, bounds=[(-1, 1)] * m, method="highs")
        if not lp.success:
            skipped += 1
            continue
        G = numpy.full((n, k), 5.0)           # pairs the behaviour never acts on come last
        for i, (act, p, cur, dest, q) in enumerate(seq):
            G[p - 1, dest - 1] = lp.x[i]
        for p in range(n):
            G[p, lab0[p] - 1] = 0.0
        eps = 1e-4
        X = numpy.eye(n)
        C = numpy.zeros((k, n))
        for p in range(n):
            for c in range(k):
                C[c, p] = -eps * G[p, c] / 2.0
        labels = numpy.array([v - 1 for v in lab0], dtype=numpy.int32)
        counters = numpy.zeros((k,), dtype=numpy.int32)
        leftclose = numpy.zeros((k,), dtype=numpy.int32)
        dclose = numpy.zeros((n,), dtype=numpy.float64)
        limit = n // k
        leftover = n - limit * k
        # script the quota set-up towards the behaviour's caps
        cnt0 = [lab0.count(c + 1) for c in range(k)]
        start = [1 if cnt0[c] - limit > 0 else 0 for c in range(k)]
        script = [c for c in range(k) if start[c] != caps[c]]
        from sklearn.utils.extmath import row_norms
        numpy.random.seed(3)
        origperm = numpy.random.permutation
        try:
            with Sink() as ev:
                KC._constraint_association_gain(leftover, counters, labels, leftclose, dclose, C, X, row_norms(X, squared=True),
                                                limit, "gain", state=ScriptedState(script + script))
        except AssertionError:
            ev = list(ev)
        except Exception as e:
            MECH.append(("s2c: _constraint_association_gain cannot be driven as modelled", SITE_G, repr(e)[:200]))
            continue
        done += 1
        ctx.traces += 1
        ctx.case(("s2c-gain", n, k, tuple(lab0), tuple(caps), tuple((a, p, d) for a, p, c_, d, q in seq)), nontrivial=any(a == "DoXSwap" for a, *_ in seq),
                 sample=dict(kind="s2c-gain", n=n, k=k, labels=lab0, caps=caps, decisions=[(a[2:], p, d) for a, p, c_, d, q in seq][:8]))
        got_caps = [e["leftclose"] for nm, e in ev if nm == "gain_begin"]
        got = [(dict(move="DoMove", xswap="DoXSwap", enqueue="DoEnqueue")[nm], e["p"] + 1, e["dest"] + 1) for nm, e in ev
               if nm in ("move", "xswap", "enqueue")]
        want = [(a, p, d) for a, p, c_, d, q in seq]
        if got_caps and got_caps[0] != caps:
            ctx.skipped.append("s2c-gain: scripted set-up did not reach the behaviour's caps")
            continue
        if got != want:
            MECH.append(("SameBehaviour", SITE_G, dict(got=got[:8], want=want[:8])))
    shutil.rmtree(out, ignore_errors=True)
    ctx.extra["s2c_gain"] = dict(replayed=done, not_realisable=skipped)
    return done


def _moved_before(seq, i):
    mv = set()
    for act, p, cur, dest, q in seq[:i]:
        if act == "DoMove":
            mv.add(p)
        elif act == "DoXSwap":
            mv.add(p)
            mv.add(q)
    return mv


MECH = []


def run(ctx):
    del MECH[:]
    boot.load()
    thorough = ctx.tier == "thorough"
    inv_q = "".join("INVARIANT %s\n" % i for i in ("Histogram", "ValidLabels", "Balanced", "NoSkip", "ExtraOnce"))
    N, K = (9, 4) if thorough else (7, 3)
    r = ctx.add_mc("Quota(%d,%d)" % (N, K), tlc.run(
        "Quota", "SPECIFICATION Spec\nCONSTANTS MaxN = %d\n MaxK = %d\n DEV_QuotaLE = FALSE\n%s" % (N, K, inv_q),
        workers=16, coverage=True, timeout=1500))
    ctx.require_coverage(r, ["Pass", "DoAssignQuota", "DoAssignExtra", "EndPass", "DoSwitch", "Finish"], "Quota")
    ctx.add_mc("Quota[DEV_QuotaLE]", tlc.run(
        "Quota", "SPECIFICATION Spec\nCONSTANTS MaxN = 5\n MaxK = 2\n DEV_QuotaLE = TRUE\nINVARIANT Balanced\n", workers=4),
        expect_violation="Balanced")
    ctx.add_mc("Quota liveness", tlc.run(
        "Quota", "SPECIFICATION FairSpec\nCONSTANTS MaxN = %d\n MaxK = 3\n DEV_QuotaLE = FALSE\nPROPERTY Terminates\n" % (6 if thorough else 5),
        workers=8, timeout=1500))
    inv_g = "".join("INVARIANT %s\n" % i for i in ("Histogram", "CapsSum", "BalancedUnlessExhausted"))
    if thorough:
        gcfg = "SPECIFICATION Spec\nCONSTANTS MaxN = 5\n MaxK = 3\n ExploreSwitch = FALSE\n DEV_CapsAsCoded = FALSE\n" + inv_g
    else:
        gcfg = "SPECIFICATION Spec\nCONSTANTS MaxN = 4\n MaxK = 3\n ExploreSwitch = TRUE\n DEV_CapsAsCoded = FALSE\n" + inv_g
    r = ctx.add_mc("QuotaGain", tlc.run("QuotaGain", gcfg, workers=16, coverage=True, timeout=2400, heap="8g"))
    ctx.require_coverage(r, ["Setup", "DoMove", "DoXSwap", "DoEnqueue", "EndPairs", "Finish"], "QuotaGain")
    ctx.add_mc("QuotaGain[Balanced is NOT an invariant of the design: swap exhaustion]", tlc.run(
        "QuotaGain", "SPECIFICATION Spec\nCONSTANTS MaxN = 4\n MaxK = 3\n ExploreSwitch = FALSE\n DEV_CapsAsCoded = FALSE\nINVARIANT Balanced\n",
        workers=4), expect_violation="Balanced")
    ctx.add_mc("QuotaGain[DEV_CapsAsCoded]", tlc.run(
        "QuotaGain", "SPECIFICATION Spec\nCONSTANTS MaxN = 5\n MaxK = 3\n ExploreSwitch = FALSE\n DEV_CapsAsCoded = TRUE\n"
        "INVARIANT BalancedUnlessExhausted\n", workers=16, timeout=900), expect_violation="BalancedUnlessExhausted")

    ns2c = s2c_distance(ctx, 600 if thorough else 150)
    ns2g = s2c_gain(ctx, 1500 if thorough else 300)

    # ---- C2S
    rng = ctx.rng
    dtr, gtr, ftr = [], [], []
    nfits = 500 if thorough else 90
    known_repros(ctx, rng, dtr, gtr, ftr)
    for it in range(nfits):
        k = rng.randint(1, 5)
        n = rng.randint(k, 26)
        if rng.random() < 0.15:
            n = k
        d = rng.randint(1, 3)
        # 'weights' promises no sizes: only valid labels, finite centres, the iteration bound and nearest-centre predictions
        strategy = rng.choice(["distance", "gain", "distance", "gain", "weights"])
        kmeans0 = rng.random() < 0.5
        seed = rng.randint(0, 10 ** 6)
        max_iter = rng.choice([2, 5, 8, 12])
        balanced = rng.random() < 0.5 and strategy != "weights"
        km, X = run_model(rng, n, k, d, strategy, kmeans0, seed, max_iter, balanced)
        record_fit(ctx, rng, it, km, X, n, k, d, strategy, kmeans0, seed, max_iter, balanced, dtr, gtr, ftr)
    # balanced predictions on batches of more than a thousand rows (k = 3, 5, 7: no divisor of a power of two)
    for j, (strategy, k) in enumerate([("distance", 3), ("gain", 5)] + ([("gain", 3), ("distance", 7), ("distance", 5)] if thorough else [])):
        n, d, seed = rng.randint(3 * k, 30), rng.randint(1, 2), rng.randint(0, 10 ** 6)
        km, X = run_model(rng, n, k, d, strategy, True, seed, 5, True)
        record_fit(ctx, rng, "big%d" % j, km, X, n, k, d, strategy, True, seed, 5, True, dtr, gtr, ftr, big=True)
    # heavy duplicates: 0/1(/2) data with more clusters than distinct points, so that points sit exactly ON centres and
    # several clusters share a centre (sizes only; the association traces of this regime are not recorded)
    for j in range(900 if thorough else 300):
        k = rng.randint(4, 6)
        n = rng.randint(3 * k, 5 * k)
        d = 1 if rng.random() < 0.7 else 2
        seed = rng.randint(0, 10 ** 6)
        from mlinsights.mlmodel import ConstraintKMeans
        X = numpy.array([[rng.randint(0, rng.choice([1, 1, 2])) for _ in range(d)] for _ in range(n)], dtype=numpy.float64)
        strategy = rng.choice(["gain", "gain", "distance"])
        km = ConstraintKMeans(n_clusters=k, strategy=strategy, kmeans0=True, random_state=seed, max_iter=rng.choice([5, 12]),
                              balanced_predictions=False, n_init=2)
        record_fit(ctx, rng, "dup%d" % j, km, X, n, k, d, strategy, True, seed, km.max_iter, False, [], [], ftr, big=True)
    for mod, cfgf, trs in (("QuotaTrace", "QuotaTrace.cfg", dtr), ("QuotaGainTrace", "QuotaGainTrace.cfg", gtr),
                           ("QuotaFitTrace", "QuotaFitTrace.cfg", ftr)):
        if not trs:
            continue
        verdicts, st = tlc.validate(mod, cfgf, trs, timeout=2400)
        ctx.states += st["states"]
        ctx.transitions += st["transitions"]
        ctx.extra.setdefault("trace_runs", []).append(dict(spec=mod, traces=len(trs), **st))
        if mod == "QuotaFitTrace":
            ctx.verdicts(verdicts, {t["id"]: t for t in trs}, SITE_D, classify=classify)
            continue
        # association level (hook H1): what the property demands of one association is its result (sizes; the call
        # returns); the way there - the order of passes, exchanges, the bookkeeping - is the mechanism layer
        byid = {t["id"]: t for t in trs}
        for tid_, v in verdicts.items():
            ctx.traces += 1
            if v.ok:
                continue
            clause, sig = classify(byid[tid_], v)
            if clause in ("Balanced", "CallSucceeds"):
                ctx.violation(clause, byid[tid_].get("site", SITE_D), sig, v.describe(), case=byid[tid_])
            else:
                MECH.append((clause, byid[tid_].get("site", SITE_D), v.describe()[:300]))
    if MECH:
        # the code does not follow the modelled mechanism: before calling it drift, look much harder at what the property
        # demands (sizes after fit and in balanced predictions), where a wrong association shows
        extra = []
        for it in range(1200 if thorough else 400):
            k = rng.randint(2, 12)
            n = rng.randint(k, 60)
            d = rng.randint(1, 3)
            strategy = rng.choice(["distance", "gain"])
            seed = rng.randint(0, 10 ** 6)
            kmeans0 = True if strategy == "gain" else rng.random() < 0.5
            km, X = run_model(rng, n, k, d, strategy, kmeans0, seed, rng.choice([5, 12]), True)
            record_fit(ctx, rng, "x%d" % it, km, X, n, k, d, strategy, kmeans0, seed, km.max_iter, True, [], [], extra)
        verdicts, st = tlc.validate("QuotaFitTrace", "QuotaFitTrace.cfg", extra, timeout=2400)
        ctx.states += st["states"]
        ctx.transitions += st["transitions"]
        ctx.verdicts(verdicts, {t["id"]: t for t in extra}, SITE_D, classify=classify)
        ctx.extra.setdefault("trace_runs", []).append(dict(spec="QuotaFitTrace(escalation)", traces=len(extra), **st))
        if not ctx.violations:
            for what, site, det in MECH:
                ctx.model_drift("ConstraintKMeans association is not a behaviour of Quota / QuotaGain (%s)" % what, site, det)
    if len(ctx.samples) < 3 and dtr:
        ctx.samples.append(dict(kind="c2s-distance", n=dtr[0]["n"], k=dtr[0]["k"], ev=dtr[0]["ev"][:6]))
    ctx.exhaustive = False
    ctx.rule = ("MC: Quota for all n<=%d,k<=%d (every processing order and preference profile), QuotaGain for all initial "
                "labellings / pair orders / exchange decisions in its bound. S2C: %d simulated Quota behaviours (n<=9,k<=4) "
                "replayed exactly on constraint_predictions through a geometric embedding. C2S: %d seeded fits + predictions "
                "(n<=26, k<=5, duplicates, both strategies, kmeans0 on/off); every association call is one trace validated "
                "event by event (hook H1), plus fit/predict-level traces. distinct = distinct (data, parameters); "
                "non-trivial = n > k." % (N, K, ns2c, nfits))
    ctx.assumptions += ["dense input (sparse input to ConstraintKMeans is broken by version drift)",
                        "strategy 'weights' is outside the property"]


if __name__ == "__main__":
    raise SystemExit(main("C07", run))
