"""C08 - piecewise estimators: a partition by the binner with one local model per bucket (specs: Piecewise, PiecewiseSched)."""
import itertools
import os
import warnings
import numpy
from .. import boot, tlc, stubs
from ..core import main

SITE_R = "mlmodel.PiecewiseRegressor"
SITE_C = "mlmodel.PiecewiseClassifier"


class OrderedParallel:
    """Stand-in for joblib.Parallel installed in the module namespace of piecewise_estimator: runs the delayed tasks in a
    chosen order (the schedule) and returns the results in task order - the granularity of the RNG call."""
    order = None

    def __init__(self, *a, **kw):
        pass

    def __call__(self, tasks):
        tasks = list(tasks)
        order = list(OrderedParallel.order) if OrderedParallel.order else list(range(len(tasks)))
        order = [i for i in order if i < len(tasks)] + [i for i in range(len(tasks)) if i not in order]
        res = [None] * len(tasks)
        for i in order:
            f, a, kw = tasks[i]
            res[i] = f(*a, **kw)
        return res


def make_data(rng, n, isclf, ncls):
    X = numpy.array([[i + 1, rng.randint(0, 5), rng.randint(0, 5)] for i in range(n)], dtype=numpy.float64)
    if isclf:
        y = numpy.array([rng.randint(0, ncls - 1) for _ in range(n)])
        for k in range(ncls):
            y[k % n] = k
    else:
        y = numpy.array([float(rng.randint(0, 20)) for _ in range(n)])
    w = numpy.array([float(rng.randint(1, 3)) for _ in range(n)])
    return X, y, w


def cells_of(model, X):
    """cell of every row in the fitted binner, as integers order-isomorphic to the code's own ordering"""
    b = model.binner_
    if hasattr(b, "tree_"):
        return [int(v) for v in b.apply(X)], None
    tr = b.transform(X)
    tups = [tuple(numpy.asarray(r.todense()).ravel().astype(numpy.int32)) for r in tr]
    return tups, True


def attribute(sets, cell, cls, isclf, hint=None, allowed=None):
    """sets: the row sets (1-based ids) of the recorded fits.  Returns for each fit the rank of the bucket it can
    legally belong to (-1 = fallback on all rows, -2 = none), such that distinct fits get distinct buckets.
    hint: the attribution read off the estimator's own attributes (estimators_[i] -> bucket i, mean_estimator_ -> -1); it
    is used when it is legal for every fit.  Otherwise (the models are kept elsewhere) a maximum matching on the row
    sets, restricted by allowed(j, bucket) - whether fit j can have produced the outputs observed for that bucket."""
    n = len(cell)
    cells = sorted(set(cell))
    own = [set(r + 1 for r in range(n) if cell[r] == c) for c in cells]
    allc = set(cls)
    allrows = set(range(1, n + 1))

    def legal(i, S):
        if not own[i] <= S:
            return False
        extra = S - own[i]
        if not isclf:
            return not extra
        missing = allc - set(cls[r - 1] for r in own[i])
        got = [cls[r - 1] for r in extra if 1 <= r <= n]
        return len(got) == len(extra) and sorted(got) == sorted(missing)

    if hint is not None and len(set(hint)) == len(hint) and all(
            (b == -1 and S == allrows) or (0 <= b < len(cells) and legal(b, S)) for b, S in zip(hint, sets)):
        return list(hint)
    ok = allowed or (lambda j, b: True)
    cand = [[i for i in range(len(cells)) if legal(i, S) and ok(j, i)] + ([-1] if S == allrows and ok(j, -1) else [])
            for j, S in enumerate(sets)]
    match = {}          # bucket -> fit

    def augment(j, seen):
        for b in cand[j]:
            if b in seen:
                continue
            seen.add(b)
            if b not in match or augment(match[b], seen):
                match[b] = j
                return True
        return False
    # buckets first (so that the fallback is what remains for a fit on all rows)
    for j in range(len(sets)):
        augment(j, set())
    out = [-2] * len(sets)
    for b, j in match.items():
        out[j] = b
    return out


def one_trace(tid, rng, thorough):
    from sklearn.tree import DecisionTreeRegressor, DecisionTreeClassifier
    from sklearn.preprocessing import KBinsDiscretizer
    from mlinsights.mlmodel import PiecewiseRegressor, PiecewiseClassifier
    from mlinsights.mlmodel import piecewise_estimator as PE
    isclf = rng.random() < 0.6
    ncls = rng.choice([2, 3]) if isclf else 1
    n = rng.randint(max(4, ncls), 30 if thorough else 22)
    X, y, w = make_data(rng, n, isclf, ncls)
    weighted = rng.random() < 0.5
    binner_kind = rng.choice(["tree", "tree", "kbins"])
    if binner_kind == "tree":
        binner = (DecisionTreeClassifier if isclf else DecisionTreeRegressor)(max_depth=rng.randint(1, 3), min_samples_leaf=rng.choice([1, 2]),
                                                                              random_state=0)
    else:
        binner = KBinsDiscretizer(n_bins=rng.choice([2, 3]), encode="onehot", strategy="uniform")
    n_jobs = rng.choice([None, None, 1, 2, 4])
    seed = rng.choice([None, rng.randint(0, 999), rng.randint(0, 999)]) if isclf else None
    slow = n_jobs not in (None, 1)
    if isclf:
        model = PiecewiseClassifier(binner=binner, estimator=stubs.RecClf2(slow=slow), n_jobs=n_jobs, random_state=seed)
    else:
        model = PiecewiseRegressor(binner=binner, estimator=stubs.SlowRecReg() if slow else stubs.RecReg(), n_jobs=n_jobs)
    site = SITE_C if isclf else SITE_R
    sig = "binner=%s n_jobs=%s random_state=%s" % (binner_kind, n_jobs, "None" if seed is None else "int")
    t = dict(id=tid, isclf=isclf, weighted=weighted, site=site, sig=sig, y=[int(v) for v in y], w=[int(v) for v in w])
    if rng.random() < 0.35:
        # an earlier life of the estimator object: other rows (another tree / other cells), one routing call
        t["sig"] += " refit"
        X0, y0, _ = make_data(rng, rng.randint(max(4, ncls), 25), isclf, ncls)
        X0[:, 1:] = 7 - X0[:, 1:] * 2
        with warnings.catch_warnings():
            warnings.simplefilter("ignore")
            try:
                model.fit(X0, y0)
                model.predict(X0[:3])
            except Exception:
                pass
    del stubs.LOG[:]
    Xfit = X.copy()
    ev = []
    numpy.random.seed(rng.randint(0, 10 ** 6))
    with warnings.catch_warnings():
        warnings.simplefilter("ignore")
        try:
            yfit, wfit = y, (w if weighted else None)
            if rng.random() < 0.3:
                # targets and weights as columns of a shuffled frame: pandas Series whose labels are not positions
                import pandas
                labels_ = list(range(n))
                rng.shuffle(labels_)
                yfit = pandas.Series(numpy.asarray(y), index=labels_)
                wfit = pandas.Series(numpy.asarray(w), index=labels_) if weighted else None
                t["sig"] += " series"
            ret = model.fit(Xfit, yfit, wfit)
        except Exception as e:
            t.update(cell=[1] * n, cls=[0] * n, ev=[dict(a="raised", err=repr(e)[:120])])
            return t
        fits = [f for nm, f in stubs.LOG if nm == "fit"]
        # probes: training rows and new rows (some in cells unseen at training time)
        m = 10
        P = numpy.array([list(X[rng.randrange(n)]) if rng.random() < 0.4 else [n + 1 + q, rng.randint(-1, 7), rng.randint(-1, 7)]
                         for q in range(m)], dtype=numpy.float64)
        ctrain, istup = cells_of(model, X)
        cprobe, _ = cells_of(model, P)
        if istup:
            allc = sorted(set(ctrain) | set(cprobe))
            ctrain = [allc.index(c) + 1 for c in ctrain]
            cprobe = [allc.index(c) + 1 for c in cprobe]
        t["cell"] = ctrain
        t["cls"] = [int(v) for v in y] if isclf else [0] * n
        # which bucket each recorded fit belongs to is found on the row sets alone (where the implementation keeps its
        # models is its own business): a matching of fits to buckets / the fallback, checked by the specification
        who = {id(e): i for i, e in enumerate(getattr(model, "estimators_", []) or [])}
        who[id(getattr(model, "mean_estimator_", None))] = -1
        hint = None if os.environ.get("VERIF_C08_NOHINT") else [who.get(f["obj"], -2) for f in fits]
        fit_at = len(ev)
        ev.append(dict(a="fitted", returns_self=ret is model))
        t["returns_self"] = ret is model
        t["untouched"] = bool(numpy.array_equal(Xfit, X))
        if rng.random() < 0.5:
            # the caller reuses the binner object it passed for a second estimator trained on other data: the first
            # estimator keeps routing with the binner fitted on ITS training set (binner_ is its own)
            X2, y2, _ = make_data(rng, rng.randint(max(4, ncls), 20), isclf, ncls)
            X2[:, 1:] = X2[:, 1:] * 2 - 3
            X2[:, 0] = X2[::-1, 0] * 3
            other = (PiecewiseClassifier if isclf else PiecewiseRegressor)(binner=binner, estimator=stubs.RecClf2() if isclf else stubs.RecReg())
            try:
                other.fit(X2, y2)
            except Exception:
                pass
        pred = model.predict(P)
        single = [model.predict(P[q:q + 1])[0] for q in range(m)]
        classes = sorted(set(int(v) for v in y))
        if isclf:
            proba = model.predict_proba(P)
        for q in range(m):
            e = dict(a="predict", id=int(P[q, 0]), cell=cprobe[q], batch_equal=bool(pred[q] == single[q]), proba_ok=True,
                     label_in_classes=True)
            if isclf:
                e["out"] = classes.index(int(pred[q])) if int(pred[q]) in classes else -1
                e["label_in_classes"] = int(pred[q]) in [int(c) for c in model.classes_]
                row = proba[q]
                e["proba_ok"] = bool(len(row) == len(model.classes_) and numpy.all(row >= 0) and abs(row.sum() - 1) < 1e-9
                                     and int(model.classes_[int(numpy.argmax(row))]) == int(pred[q]))
            else:
                e["out"] = int(round(float(pred[q])))
            ev.append(e)
        # attribution of the recorded fits (see attribute): consistent with the outputs observed for every seen cell
        cells_sorted = sorted(set(ctrain))
        seen_out = {}
        for e in ev[fit_at + 1:]:
            if e.get("a") == "predict" and e["cell"] in cells_sorted:
                seen_out.setdefault(cells_sorted.index(e["cell"]), []).append((e["id"], e["out"]))
        nclasses = len(set(t["cls"]))

        def allowed(j, b):
            S = fits[j]["rows"]
            for pid, out in seen_out.get(b, []):
                want = (sum(S) + pid) % nclasses if isclf else sum(int(t["y"][r - 1]) for r in S) + pid
                if want != out:
                    return False
            return True
        att = attribute([set(f["rows"]) for f in fits], ctrain, t["cls"], isclf, hint=hint, allowed=allowed)
        ev[fit_at:fit_at] = [dict(a="fit", rows=f["rows"], ys=f["ys"], ws=f["ws"], bucket=b) for f, b in zip(fits, att)]
        # the same fit under other task orders (schedule replay at the granularity of the RNG call)
        if isclf and seed is not None and len(model.estimators_) >= 2:
            base_sets = [sorted(e.rows_) for e in model.estimators_]
            k = len(model.estimators_)
            orders = list(itertools.permutations(range(k))) if k <= 3 else [tuple(reversed(range(k))), tuple(rng.sample(range(k), k))]
            orig = PE.Parallel
            PE.Parallel = OrderedParallel
            try:
                for order in orders:
                    OrderedParallel.order = order
                    m2 = PiecewiseClassifier(binner=binner, estimator=stubs.RecClf2(), n_jobs=2, random_state=seed)
                    m2.fit(X.copy(), y, w if weighted else None)
                    sets = [sorted(e.rows_) for e in m2.estimators_]
                    ev.append(dict(a="same_schedule", equal=bool(sets == base_sets), order=list(order)))
            finally:
                PE.Parallel = orig
                OrderedParallel.order = None
    t["ev"] = ev
    return t


def classify(t, v):
    if v.fails:
        return v.fails[0][0], t.get("sig", "")
    return "NotABehaviour", t.get("sig", "")


def run(ctx):
    boot.load()
    thorough = ctx.tier == "thorough"
    invs = "".join("INVARIANT %s\n" % i for i in ("Partition", "OneModelPerNonEmptyBucket", "ExactRows", "EveryModelSeesEveryClass", "FallbackOnAllRows"))
    r = ctx.add_mc("Piecewise(classifier)", tlc.run(
        "Piecewise", "SPECIFICATION Spec\nCONSTANTS MaxRows = %d\n Cells = {1, 2, 3}\n Classes = {1, 2}\n IsClassifier = TRUE\n"
        " DEV_BorrowEveryClass = FALSE\n%s" % (6 if thorough else 5, invs), workers=16, coverage=True, timeout=2400, heap="8g"))
    ctx.require_coverage(r, ["BuildMapping", "FitMean", "DoFitBucket", "Finish"], "Piecewise")
    ctx.add_mc("Piecewise(regressor)", tlc.run(
        "Piecewise", "SPECIFICATION Spec\nCONSTANTS MaxRows = 6\n Cells = {1, 2, 3, 4}\n Classes = {1}\n IsClassifier = FALSE\n"
        " DEV_BorrowEveryClass = FALSE\n%s" % invs.replace("INVARIANT EveryModelSeesEveryClass\n", ""), workers=16, timeout=1200))
    ctx.add_mc("Piecewise[DEV_BorrowEveryClass]", tlc.run(
        "Piecewise", "SPECIFICATION Spec\nCONSTANTS MaxRows = 3\n Cells = {1, 2}\n Classes = {1, 2}\n IsClassifier = TRUE\n"
        " DEV_BorrowEveryClass = TRUE\nINVARIANT ExactRows\n", workers=4), expect_violation="ExactRows")
    ctx.add_mc("PiecewiseSched", tlc.run("PiecewiseSched", "SPECIFICATION Spec\nCONSTANTS NTasks = %d\n DEV_SharedRng = FALSE\n"
                                         "INVARIANT ScheduleIndependent\n" % (4 if thorough else 3), workers=8, coverage=True))
    ctx.add_mc("PiecewiseSched[DEV_SharedRng]", tlc.run(
        "PiecewiseSched", "SPECIFICATION Spec\nCONSTANTS NTasks = 2\n DEV_SharedRng = TRUE\nINVARIANT ScheduleIndependent\n", workers=2),
        expect_violation="ScheduleIndependent")
    rng = ctx.rng
    traces = []
    for k in range(500 if thorough else 110):
        t = one_trace(k + 1, rng, thorough)
        nb = len(set(t["cell"]))
        ctx.case((t["sig"], tuple(t["cell"]), tuple(t["cls"]), t["weighted"]), nontrivial=nb >= 2,
                 sample=dict(kind="c2s", sig=t["sig"], cell=t["cell"], cls=t["cls"], ev=t["ev"][:3]))
        if t.get("returns_self") is False:
            ctx.violation("FitReturnsSelf", t["site"], t["sig"], "fit did not return self")
        if t.get("untouched") is False:
            ctx.violation("InputUntouched", t["site"], t["sig"], "X modified by fit")
        traces.append(t)
    verdicts, st = tlc.validate("PiecewiseTrace", "PiecewiseTrace.cfg", traces, timeout=2400)
    ctx.states += st["states"]
    ctx.transitions += st["transitions"]
    ctx.verdicts(verdicts, {t["id"]: t for t in traces}, SITE_R, classify=classify)
    ctx.extra.setdefault("trace_runs", []).append(dict(spec="PiecewiseTrace", traces=len(traces), **st))
    real_learners(ctx, rng, 20 if thorough else 6)
    ctx.exhaustive = False
    ctx.rule = ("MC: every assignment of <=5-6 rows to 3-4 cells and 2 classes, every legal borrow; every interleaving of the "
                "shuffle/fit steps of the bucket tasks. C2S: seeded fits with recording local models (rows carry their id), tree "
                "and KBinsDiscretizer binners (probe rows in unseen cells), sample weights, n_jobs in {None,1,2,4} with a slow "
                "first bucket; every local fit, the order of estimators_, every prediction and the same fit under permuted task "
                "orders are events validated by PiecewiseTrace. non-trivial = >= 2 buckets.")
    ctx.assumptions += ["task orders are replayed at the granularity of the RNG call (module-level Parallel replaced by an ordered "
                        "executor); OS thread interleavings inside a task are not forced",
                        "integer labels (predict casts to int32 by design)"]


def real_learners(ctx, rng, count):
    """probability / label clauses with real local models, and independence from n_jobs"""
    from sklearn.linear_model import LinearRegression, LogisticRegression
    from sklearn.dummy import DummyClassifier
    from sklearn.tree import DecisionTreeClassifier, DecisionTreeRegressor
    from mlinsights.mlmodel import PiecewiseRegressor, PiecewiseClassifier
    for it in range(count):
        n = rng.randint(20, 60)
        X = numpy.array([[rng.randint(0, 9), rng.randint(0, 9)] for _ in range(n)], dtype=float)
        yc = numpy.array([(3 + int(a > 4) + int(b > 4)) for a, b in X])
        yr = X[:, 0] * 2 + X[:, 1] + numpy.array([rng.randint(0, 2) for _ in range(n)])
        seed = rng.randint(0, 999)
        ctx.evaluations += 1
        with warnings.catch_warnings():
            warnings.simplefilter("ignore")
            try:
                outs = []
                for nj in (None, 2, 4):
                    mk = rng.choice([LogisticRegression, DummyClassifier])
                    numpy.random.seed(seed)
                    c = PiecewiseClassifier(binner=DecisionTreeClassifier(max_depth=2, random_state=0), estimator=LogisticRegression(max_iter=300),
                                            n_jobs=nj, random_state=seed).fit(X, yc)
                    pa = c.predict_proba(X)
                    pl = c.predict(X)
                    outs.append(pa)
                    if pa.shape[1] != len(c.classes_) or numpy.any(pa < -1e-12) or not numpy.allclose(pa.sum(axis=1), 1, atol=1e-9):
                        ctx.violation("ProbaIsDistribution", SITE_C, "real learner", "rows of predict_proba are not distributions over classes_")
                    if not set(int(v) for v in pl) <= set(int(v) for v in c.classes_):
                        ctx.violation("LabelsInClasses", SITE_C, "real learner", "predicted label outside classes_")
                if not all(numpy.allclose(outs[0], o, atol=1e-9) for o in outs[1:]):
                    ctx.violation("ScheduleIndependent", SITE_C, "real learner n_jobs", "predict_proba differs with n_jobs")
                # the features are counts: the same rows in an integer array reach the same buckets and the same local models
                Xi = X.astype(numpy.int64)
                if not (numpy.allclose(c.predict_proba(Xi), pa, atol=1e-9) and numpy.array_equal(c.predict(Xi), pl)):
                    ctx.violation("Dispatch", SITE_C, "real learner integer dtype batch", "outputs differ when the same rows are given as int64")
                # a local classifier whose predict is not the arg max of its predict_proba (Platt scaling): the label is the
                # local model's label
                from sklearn.svm import SVC
                sv = PiecewiseClassifier(binner=DecisionTreeClassifier(max_depth=1, random_state=0),
                                         estimator=SVC(probability=True, random_state=0), random_state=seed).fit(X, yc)
                assoc = sv.transform_bins(X)
                want = numpy.array([int((sv.estimators_[int(j)] if j >= 0 and sv.estimators_[int(j)] is not None else sv.mean_estimator_)
                                        .predict(X[i_:i_ + 1])[0]) for i_, j in enumerate(assoc)])
                if not numpy.array_equal(sv.predict(X).astype(int), want):
                    ctx.violation("Dispatch", SITE_C, "real learner predict is the local model's predict",
                                  "labels differ from the bucket model's own predict (SVC with probability=True)")
                ro = [PiecewiseRegressor(binner=DecisionTreeRegressor(max_depth=2, random_state=0), estimator=LinearRegression(), n_jobs=nj).fit(X, yr).predict(X)
                      for nj in (None, 3)]
                if not numpy.allclose(ro[0], ro[1], atol=1e-9):
                    ctx.violation("ScheduleIndependent", SITE_R, "real learner n_jobs", "predict differs with n_jobs")
                rg = PiecewiseRegressor(binner=DecisionTreeRegressor(max_depth=2, random_state=0), estimator=LinearRegression()).fit(X, yr)
                if not numpy.allclose(rg.predict(X.astype(numpy.int64)), rg.predict(X), atol=1e-9):
                    ctx.violation("Dispatch", SITE_R, "real learner integer dtype batch", "outputs differ when the same rows are given as int64")
            except Exception as e:
                ctx.violation("FitSucceeds", SITE_C, "real learner", repr(e))


if __name__ == "__main__":
    raise SystemExit(main("C08", run))
