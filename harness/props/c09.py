"""C09 - PiecewiseTreeRegressor: per-leaf least squares; criteria compute the true MSE (spec: Criterion)."""
from fractions import Fraction
import numpy
from .. import boot, tlc
from ..core import main

SITE = "mlmodel.piecewise_tree_regression_criterion"


def proj(v):
    """float -> nearest rational with denominator <= 10^6 (the projection of DESIGN 2.4)."""
    v = float(v)
    if v != v:
        return dict(ok=False, nan=True, v=[0, 1])
    f = Fraction(v).limit_denominator(10 ** 6)
    ok = abs(v - float(f)) <= 1e-9 * max(1.0, abs(v)) and abs(f.numerator) < 2 ** 30
    return dict(ok=bool(ok), nan=False, v=[int(f.numerator), int(f.denominator)] if ok else [0, 1])


def make_criterion(cls_name, X, n):
    from mlinsights.mlmodel.piecewise_tree_regression_criterion import SimpleRegressorCriterion
    from mlinsights.mlmodel.piecewise_tree_regression_criterion_fast import SimpleRegressorCriterionFast
    from mlinsights.mlmodel.piecewise_tree_regression_criterion_linear import LinearRegressorCriterion
    if cls_name == "simple":
        return SimpleRegressorCriterion(1, n)
    if cls_name == "fast":
        return SimpleRegressorCriterionFast(1, n)
    return LinearRegressorCriterion(1, X)


def cursor_trace(tid, rng, cls_name, n, hist_len, small=False):
    from mlinsights.mlmodel import _piecewise_tree_regression_common as C
    linear = cls_name == "linear"
    ymax, xmax = (3, 2) if small else (5, 4)
    perm = list(range(n))
    rng.shuffle(perm)                      # samples[k] = perm[k]: position k holds sample perm[k]
    Ypos = [rng.randint(0, ymax) for _ in range(n)]
    # weights of the constant criteria include exact zeros (rows that count for nothing; a range without weight is not claimed)
    Wpos = [1 if linear else rng.choice([0, 1, 1, 2, 3]) for _ in range(n)]
    if not linear and sum(Wpos) == 0:
        Wpos[0] = 1
    Xpos = [rng.randint(0, xmax) if linear else 0 for _ in range(n)]
    y = numpy.zeros((n, 1))
    w = numpy.zeros((n,))
    X = numpy.zeros((n, 1))
    for k, s in enumerate(perm):
        y[s, 0], w[s], X[s, 0] = Ypos[k], Wpos[k], Xpos[k]
    wtot = float(w.sum())
    crit = make_criterion(cls_name, X, n)
    samples = numpy.array(perm, dtype=numpy.int64)
    ev = []
    s = rng.randint(0, n - 1)
    e = rng.randint(s + 1, n)
    C._test_criterion_init(crit, y, w, wtot, samples, s, e)
    ev.append(dict(a="init", s=s, e=e))

    def query(kind):
        if kind == "q_value":
            ev.append(dict(a=kind, **proj(C._test_criterion_node_value(crit))))
        elif kind == "q_impurity":
            ev.append(dict(a=kind, **proj(C._test_criterion_node_impurity(crit))))
        elif kind == "q_children":
            l_, r_ = C._test_criterion_node_impurity_children(crit)
            ev.append(dict(a="q_left", **proj(l_)))
            ev.append(dict(a="q_right", **proj(r_)))
        elif kind == "q_proxy":
            ev.append(dict(a=kind, **proj(C._test_criterion_proxy_impurity_improvement(crit))))
        elif kind == "q_improvement":
            # as the splitter does: impurity_improvement(parent impurity, children impurities); a node without weight has
            # no improvement (scikit-learn never builds one)
            if sum(Wpos[s:e]) == 0:
                return
            p_ = C._test_criterion_node_impurity(crit)
            l_, r_ = C._test_criterion_node_impurity_children(crit)
            ev.append(dict(a=kind, wtot=int(wtot), **proj(C._test_criterion_impurity_improvement(crit, p_, l_, r_))))
    for _ in range(hist_len):
        op = rng.choice(["update", "update", "q_value", "q_impurity", "q_children", "q_proxy", "q_improvement", "q_improvement", "init"])
        if op == "update":
            p = rng.choice([s, e, rng.randint(s, e), rng.randint(s, e)])
            C._test_criterion_update(crit, p)
            ev.append(dict(a="update", p=p))
        elif op == "init":
            s = rng.randint(0, n - 1)
            e = rng.randint(s + 1, n)
            C._test_criterion_init(crit, y, w, wtot, samples, s, e)
            ev.append(dict(a="init", s=s, e=e))
        else:
            query(op)
    return dict(id=tid, kind="cursor", ckind="linear" if linear else "const", Y=Ypos, W=Wpos, X=Xpos, ev=ev,
                site=SITE + ("_linear.LinearRegressorCriterion" if linear else
                             ("_fast.SimpleRegressorCriterionFast" if cls_name == "fast" else ".SimpleRegressorCriterion")),
                sig="history", lx=[], ly=[], msl=0, max_depth=0, criterion="")


def leaf_traces(tid0, rng, criterion, count, variant=None):
    from mlinsights.mlmodel import PiecewiseTreeRegressor
    out = []
    n = rng.randint(6, 40)
    xs = [rng.randint(0, 12) for _ in range(n)]
    ys = [rng.randint(0, 9) + (2 * x if rng.random() < 0.7 else 0) for x in xs]
    # the unit of the feature is the caller's business: the same integers times a power of two (exact in floating
    # point) give the same leaves and the same per-leaf least squares, so the trace keeps the unscaled integers
    # (variant: the systematic part of the plan - every unit, an origin, an earlier life - the rest is drawn)
    unit = 2.0 ** (rng.choice([0, 0, 20, 33, -20]) if variant is None else [0, 20, 33, -20, 0, 0][variant % 6])
    # ... and so is its origin: with an offset that single precision cannot hold (4096.61) the per-leaf least squares,
    # which is translation invariant, is still evaluated at the row as given (float64)
    origin = 4096.61 if unit == 1.0 and (rng.random() < 0.4 if variant is None else variant % 6 >= 4) else 0.0
    X = numpy.array(xs, dtype=numpy.float64).reshape((-1, 1)) * unit + origin
    y = numpy.array(ys, dtype=numpy.float64)
    md = rng.choice([1, 2, 3])
    msl = rng.choice([1, 2, 3, 5])
    model = PiecewiseTreeRegressor(criterion=criterion, max_depth=md, min_samples_leaf=msl)
    prior = rng.random() < 0.4 if variant is None else variant % 2 == 1
    if prior:
        # an earlier life of the instance with the OTHER criterion, another depth and other rows
        model.set_params(criterion="simple" if criterion == "mselin" else "mselin", max_depth=rng.choice([1, 2, 4]))
        try:
            model.fit(X[::-1][: max(4, n // 2)] + unit, y[: max(4, n // 2)][::-1] * 2)       # (other rows)
            model.predict(X[:3])
        except Exception:
            pass
        model.set_params(criterion=criterion, max_depth=md)
    model.fit(X, y)
    train_leaf = model.apply(X)
    probes = [rng.choice(xs) for _ in range(count - 2)] + [-1, 14]
    P = numpy.array(probes, dtype=numpy.float64).reshape((-1, 1)) * unit + origin
    pl = model.apply(P)
    pred = model.predict(P)
    depth = int(model.tree_.max_depth)
    for q, x in enumerate(probes):
        rows = [k for k in range(n) if train_leaf[k] == pl[q]]
        out.append(dict(id=tid0 + q, kind="leaf", ckind="const", Y=[0], W=[1], X=[0],
                        lx=[xs[k] for k in rows], ly=[ys[k] for k in rows], msl=msl, max_depth=md, criterion=criterion,
                        ev=[dict(a="leaf", x=int(x), depth=depth, **proj(pred[q]))],
                        site="mlmodel.PiecewiseTreeRegressor(criterion=%r)" % criterion, sig="predict unit=%g%s%s" % (unit, " origin" if origin else "", " refit" if prior else "")))
    return out, (model.criterion == criterion)


def classify(t, v):
    if v.fails:
        return v.fails[0][0], t.get("sig", "")
    return "NotABehaviour", t.get("sig", "")


def run(ctx):
    boot.load()
    thorough = ctx.tier == "thorough"
    invs = "INVARIANT WeightsCurrent\nINVARIANT TripleDetermines\nINVARIANT SplitNeverHurts\nINVARIANT MseNonNegative\n"
    base = ("SPECIFICATION Spec\nCONSTANTS MaxN = %d\n YVals = {0, 1, 3}\n WVals = {1, 2}\n XVals = {0, 1, 2}\n Kinds <- KBoth\n"
            % (5 if thorough else 4))
    r = ctx.add_mc("Criterion", tlc.run("MC_Criterion", base + " DEV_LinearNoUpdateWeights = FALSE\n" + invs, workers=16,
                                         coverage=True, timeout=2400, heap="8g"))
    ctx.require_coverage(r, ["DoInit", "DoUpdate", "Reset", "ReverseReset", "Proxy"], "Criterion")
    ctx.add_mc("Criterion[DEV_LinearNoUpdateWeights]", tlc.run(
        "MC_Criterion", "SPECIFICATION Spec\nCONSTANTS MaxN = 3\n YVals = {0, 1}\n WVals = {1}\n XVals = {0, 1, 2}\n Kinds <- KLinear\n"
        " DEV_LinearNoUpdateWeights = TRUE\nINVARIANT WeightsCurrent\n", workers=4), expect_violation="WeightsCurrent")
    rng = ctx.rng
    traces = []
    tid = 0
    # systematic: every (s, p, e) triple on small vectors, each reached by a direct path, all queries (boundaries included)
    from mlinsights.mlmodel import _piecewise_tree_regression_common as C   # noqa
    for cls_name in ("simple", "fast", "linear"):
        for n in (1, 2, 3, 4, 5):
            for rep in range(3 if thorough else 1):
                tid += 1
                t = cursor_trace(tid, rng, cls_name, n, 0, small=True)
                # replace the random history by the exhaustive sweep over triples
                t["ev"] = sweep_events(t, cls_name, n)
                t["sig"] = "triples"
                ctx.case(("sweep", cls_name, n, tuple(t["Y"]), tuple(t["W"]), tuple(t["X"])), nontrivial=n >= 3,
                         sample=dict(kind="sweep", criterion=cls_name, Y=t["Y"], W=t["W"], X=t["X"], ev=t["ev"][:5]))
                traces.append(t)
    # the same sweep for the linear criterion on features with runs of equal values (rank-deficient ranges: the residual
    # of the least-squares fit is still unique)
    for Xfix in ([2, 2, 2, 2], [0, 1, 1, 1, 2], [1, 1, 1, 0, 0]):
        tid += 1
        t = cursor_trace(tid, rng, "linear", len(Xfix), 0, small=True)
        t["X"] = list(Xfix)
        t["ev"] = sweep_events(t, "linear", len(Xfix))
        t["sig"] = "triples rank-deficient"
        ctx.case(("sweep", "linear", tuple(t["Y"]), tuple(t["X"])), nontrivial=True)
        traces.append(t)
    for k in range(900 if thorough else 240):
        tid += 1
        cls_name = rng.choice(["simple", "fast", "linear", "linear"])
        n = rng.randint(1, 10)
        t = cursor_trace(tid, rng, cls_name, n, rng.randint(3, 9))
        ctx.case(("hist", cls_name, tuple(t["Y"]), tuple(t["W"]), tuple(t["X"]), str(t["ev"])), nontrivial=n >= 3)
        traces.append(t)
    for k in range(60 if thorough else 24):
        # the first twelve: both criteria x every unit / origin / earlier life, then drawn at random
        crit = rng.choice(["mselin", "simple"]) if k >= 12 else ["mselin", "simple"][k // 6]
        try:
            ts, restored = leaf_traces(tid + 1, rng, crit, 8, variant=k if k < 12 else None)
        except Exception as e:
            ctx.violation("FitSucceeds", "mlmodel.PiecewiseTreeRegressor(criterion=%r)" % crit, "fit", repr(e))
            continue
        tid += len(ts)
        ctx.case(("leaf", crit, k))
        traces.extend(ts)
    verdicts, st = tlc.validate("CriterionTrace", "CriterionTrace.cfg", traces, timeout=2400)
    ctx.states += st["states"]
    ctx.transitions += st["transitions"]
    ctx.verdicts(verdicts, {t["id"]: t for t in traces}, SITE, classify=classify)
    ctx.extra.setdefault("trace_runs", []).append(dict(spec="CriterionTrace", traces=len(traces), **st))
    ctx.exhaustive = False
    ctx.rule = ("MC: all target/weight/feature vectors of length <=%d over small value sets, every reachable (start,pos,end) with "
                "stored weights. C2S: the three compiled criteria driven through _test_criterion_*: an exhaustive sweep of all "
                "(start,pos,end) triples incl. boundaries on vectors of length 1..5 and random call histories (init / update / "
                "proxy / queries, random sample order, weights) on vectors of length <=10; PiecewiseTreeRegressor predictions "
                "against per-leaf least squares / leaf means from tree_.apply. Results are projected to rationals (denominator "
                "<=1e6, 1e-9) and compared exactly with the specification. non-trivial = length >= 3." % (5 if thorough else 4))
    ctx.assumptions += ["one feature for the linear fit (exact rational least squares); rank-deficient ranges / leaves and ranges with "
                        "no more rows than coefficients are not claimed", "reset / reverse_reset have no accessor: update(start) / "
                        "update(end) take the same path"]


def sweep_events(t, cls_name, n):
    """Re-create the criterion of trace t and visit every triple; returns the event list."""
    from mlinsights.mlmodel import _piecewise_tree_regression_common as C
    Ypos, Wpos, Xpos = t["Y"], t["W"], t["X"]
    y = numpy.array(Ypos, dtype=float).reshape((-1, 1))
    w = numpy.array(Wpos, dtype=float)
    X = numpy.array(Xpos, dtype=float).reshape((-1, 1))
    wtot = float(w.sum())
    crit = make_criterion(cls_name, X, n)
    samples = numpy.arange(n, dtype=numpy.int64)
    ev = []
    for s in range(n):
        for e in range(s + 1, n + 1):
            C._test_criterion_init(crit, y, w, wtot, samples, s, e)
            ev.append(dict(a="init", s=s, e=e))
            ev.append(dict(a="q_value", **proj(C._test_criterion_node_value(crit))))
            ev.append(dict(a="q_impurity", **proj(C._test_criterion_node_impurity(crit))))
            for p in range(s, e + 1):
                C._test_criterion_update(crit, p)
                ev.append(dict(a="update", p=p))
                l_, r_ = C._test_criterion_node_impurity_children(crit)
                ev.append(dict(a="q_left", **proj(l_)))
                ev.append(dict(a="q_right", **proj(r_)))
                if w[s:e].sum() == 0:
                    ev.append(dict(a="q_proxy", **proj(C._test_criterion_proxy_impurity_improvement(crit))))
                    continue
                pi = C._test_criterion_node_impurity(crit)
                ev.append(dict(a="q_improvement", wtot=int(wtot), **proj(C._test_criterion_impurity_improvement(crit, pi, l_, r_))))
                ev.append(dict(a="q_proxy", **proj(C._test_criterion_proxy_impurity_improvement(crit))))
    return ev


if __name__ == "__main__":
    raise SystemExit(main("C09", run))
