"""C10 - DecisionTreeLogisticRegression is a consistent tree of binary classifiers (spec: LogregTree; hook H2)."""
import warnings
import numpy
from .. import boot, tlc, stubs
from ..core import main
from .c07 import Sink

SITE = "mlmodel.DecisionTreeLogisticRegression"
MW = [(0, 1), (1, 8), (1, 4)]


def collect(node, out):
    out[node.index] = node
    if node.above is not None:
        collect(node.above, out)
    if node.below is not None:
        collect(node.below, out)


class Ids:
    """canonical ids of probability vectors (1e-9: batch and single-row BLAS paths may differ in the last ulp)"""

    def __init__(self):
        self.seen = []

    def of(self, v):
        v = numpy.asarray(v, dtype=float)
        for k, u in enumerate(self.seen):
            if u.shape == v.shape and numpy.allclose(u, v, rtol=0, atol=1e-9):
                return k
        self.seen.append(v.copy())
        return len(self.seen) - 1


def one_trace(tid, rng, base_kind, thorough):
    from mlinsights.mlmodel import DecisionTreeLogisticRegression
    from sklearn.linear_model import LogisticRegression
    from sklearn.tree import DecisionTreeClassifier
    d = rng.randint(1, 3)
    n = rng.randint(6, 60 if thorough else 40)
    lab = rng.choice([(0, 1), (1, 0), (-3, 7), (5, 2), (10, 11)])
    X = numpy.array([[i] + [rng.randint(-6, 6) for _ in range(d)] for i in range(n)], dtype=numpy.float64)
    if base_kind == "lookup":
        yi = [rng.randint(0, 1) for _ in range(n)]
    else:   # a noisy linear concept so that logistic regressions split the data
        w = [rng.choice([-2, -1, 1, 2]) for _ in range(d)]
        yi = [1 if (sum(w[j] * X[i, j + 1] for j in range(d)) + rng.randint(-4, 4)) > 0 else 0 for i in range(n)]
    if len(set(yi)) < 2:
        yi[0], yi[1] = 0, 1
    y = numpy.array([lab[v] for v in yi])
    mw = rng.choice(MW)
    params = dict(max_depth=rng.choice([1, 2, 3, 5, 8]), min_samples_leaf=rng.choice([1, 2, 3]),
                  min_samples_split=rng.choice([2, 4, 10]), min_weight_fraction_leaf=mw[0] / mw[1],
                  gamma=rng.choice([0.5, 1.0, 2.0]), p1p2=rng.choice([0.09, 0.2]))
    if base_kind == "lookup":
        est = stubs.LookupClf(salt=rng.randint(0, 999))
        params["fit_improve_algo"] = rng.choice(["auto", "none", "intercept_sort"])
        Xfit = X
    elif base_kind == "logreg":
        est = LogisticRegression()
        params["fit_improve_algo"] = rng.choice(["auto", "none", "intercept_sort", "intercept_sort_always"])
        Xfit = X[:, 1:]
    else:
        est = DecisionTreeClassifier(max_depth=2, random_state=0)
        params["fit_improve_algo"] = rng.choice(["auto", "none", "intercept_sort"])
        Xfit = X[:, 1:]
    t = dict(id=tid, n=n, max_depth=params["max_depth"], msl=params["min_samples_leaf"], mss=params["min_samples_split"],
             mw_num=mw[0], mw_den=mw[1], site=SITE,
             sig="base=%s improve=%s" % (base_kind, params["fit_improve_algo"]), params={k: repr(v) for k, v in params.items()})
    if rng.random() < 0.5:
        model = DecisionTreeLogisticRegression(estimator=est, **params)
    else:       # configured after construction, as clone + set_params of a grid search does
        model = DecisionTreeLogisticRegression(estimator=est)
        model.set_params(**params)
        t["sig"] += " set_params"
    ev = []
    with warnings.catch_warnings():
        warnings.simplefilter("ignore")
        if rng.random() < 0.4:
            # an earlier life of the same instance: other depth, other rows, every accessor called once - the fit that is
            # traced below must not see anything of it
            t["sig"] += " refit"
            n0 = rng.randint(4, n)
            model.set_params(max_depth=rng.choice([1, 2, 8]))
            try:
                model.fit(Xfit[:n0][::-1], numpy.array([lab[i % 2] for i in range(n0)]))
                model.get_leaves_index(), model.predict(Xfit[:3]), model.decision_path(Xfit[:3]), model.predict_proba(Xfit[:3])
            except Exception:
                pass
            model.set_params(max_depth=params["max_depth"])
        with Sink() as raw:
            try:
                ret = model.fit(Xfit, y)
            except Exception as e:
                ev = [dict(a=nm, **f) for nm, f in raw] + [dict(a="raised", err=repr(e)[:100])]
                t["ev"] = ev
                return t
        ev = [dict(a=nm, **f) for nm, f in raw]
        for e in ev:
            if e["a"] == "dtlr_exit" and e["reason"] != "split":
                e.update(above=-1, below=-1)
        nodes = {}
        collect(model.tree_, nodes)
        walked = []

        def walk(nd, depth):
            walked.append(dict(idx=int(nd.index), above=int(nd.above.index) if nd.above is not None else -1,
                               below=int(nd.below.index) if nd.below is not None else -1, depth=depth))
            for ch in (nd.above, nd.below):
                if ch is not None:
                    walk(ch, depth + 1)
        walk(model.tree_, 1)
        t.update(tree=walked, objs=len(walked), n_nodes=int(model.n_nodes_))
        ev.append(dict(a="fitted", n_nodes=int(model.n_nodes_), depth=int(model.tree_depth_),
                       leaves=[int(v) for v in model.get_leaves_index()], returns_self=ret is model))
        t["returns_self"] = ret is model
        # probe rows: training rows and new ones
        m = 12
        P = numpy.array([list(X[rng.randrange(n)]) if rng.random() < 0.6 else [n + q] + [rng.randint(-7, 7) for _ in range(d)]
                         for q in range(m)], dtype=numpy.float64)
        Pfit = P if base_kind == "lookup" else P[:, 1:]
        if rng.random() < 0.3:
            Pfit = Pfit.astype(numpy.int64)          # the probe rows are integers: handed over as an integer array
        table = Ids()
        try:
            proba = model.predict_proba(Pfit)
            pred = model.predict(Pfit)
            dp = model.decision_path(Pfit).toarray()
        except Exception as e:
            ev.append(dict(a="raised", err=repr(e)[:100]))
            t["ev"] = ev
            return t
        per_node = {}
        for idx, nd in nodes.items():
            per_node[idx] = nd.estimator.predict_proba(Pfit)
        nn = int(model.n_nodes_)
        classes = [c.item() for c in model.classes_]
        for q in range(m):
            cmp, pid, p1ge, near = [], [], [], False
            for idx in range(max(nn, max(nodes) + 1)):
                if idx not in nodes:
                    cmp.append(-9)
                    pid.append(-9)
                    p1ge.append(False)
                    continue
                p = per_node[idx][q]
                thr = nodes[idx].threshold
                if base_kind != "lookup" and (abs(p[1] - thr) < 1e-9 or abs(p[1] - 0.5) < 1e-9):
                    near = True
                cmp.append(1 if p[1] > thr else (0 if p[1] == thr else -1))
                pid.append(table.of(p))
                p1ge.append(bool(p[1] >= 0.5))
            if near:
                continue       # floating-point near-tie of a real learner: the comparison is not reproducible outside the call
            ev.append(dict(a="row", cmp=cmp, pid=pid, p1ge=p1ge, path=[int(v) for v in numpy.where(dp[q] != 0)[0]],
                           proba=table.of(proba[q]), label=classes.index(pred[q].item()) if pred[q].item() in classes else -1,
                           sums_to_one=bool(abs(proba[q].sum() - 1.0) < 1e-9)))
    t["ev"] = ev
    return t


def classify(t, v):
    if v.fails:
        return v.fails[0][0], t.get("sig", "")
    return "NotABehaviour", t.get("sig", "")


def run(ctx):
    boot.load()
    thorough = ctx.tier == "thorough"
    invs = "".join("INVARIANT %s\n" % i for i in ("IndicesDistinct", "IndicesBelowN", "DepthBound", "ChildDepth",
                                                  "PathIsProbaPath", "PathStartsAtRoot", "LeavesAreTerminals"))
    base = ("SPECIFICATION Spec\nCONSTANTS MaxRows = %d\n MaxDepthParam = %s\n Msl = {1, 2}\n Mss = {2, 4}\n MwNum = 0\n MwDen = 1\n"
            % ((9, "{1, 2, 3, 4}") if thorough else (8, "{1, 2, 3}")))
    r = ctx.add_mc("LogregTree", tlc.run("LogregTree", base + " DEV_PathUsesGE = FALSE\n" + invs, workers=16, coverage=True,
                                          timeout=2400, heap="8g"))
    ctx.require_coverage(r, ["Enter", "Split", "Above", "Below", "Exit"], "LogregTree")
    ctx.add_mc("LogregTree[mwfl=1/8]", tlc.run(
        "LogregTree", "SPECIFICATION Spec\nCONSTANTS MaxRows = 8\n MaxDepthParam = {3}\n Msl = {1}\n Mss = {2}\n MwNum = 1\n MwDen = 8\n"
        " DEV_PathUsesGE = FALSE\n" + invs, workers=8))
    ctx.add_mc("LogregTree[DEV_PathUsesGE]", tlc.run(
        "LogregTree", "SPECIFICATION Spec\nCONSTANTS MaxRows = 7\n MaxDepthParam = {2}\n Msl = {1}\n Mss = {2}\n MwNum = 0\n MwDen = 1\n"
        " DEV_PathUsesGE = TRUE\nINVARIANT PathIsProbaPath\n", workers=4), expect_violation="PathIsProbaPath")
    rng = ctx.rng
    traces = []
    kinds = ["lookup"] * 5 + ["logreg"] * 3 + ["tree"]
    for k in range(700 if thorough else 220):
        kind = rng.choice(kinds)
        try:
            t = one_trace(k + 1, rng, kind, thorough)
        except AssertionError as e:
            # documented refusal: intercept_sort_always on a non linear model
            continue
        nrows = sum(1 for e in t["ev"] if e["a"] == "row")
        nn = sum(1 for e in t["ev"] if e["a"] == "dtlr_enter")
        ctx.case(("c2s", t["sig"], t["n"], str(t["params"]), nn), nontrivial=nn >= 3,
                 sample=dict(kind="c2s", params=t["params"], n=t["n"], events=[e for e in t["ev"] if e["a"] != "row"][:7]))
        if t.get("returns_self") is False:
            ctx.violation("FitReturnsSelf", SITE, t["sig"], "fit did not return self")
        traces.append(t)
    # every hook trace has a companion that carries the finished tree and the probe rows only: the clauses of the property
    # are decided on it; a fit that is not a run of the modelled stack machine, with the companion accepted, is MODEL-DRIFT
    comp = {}
    for t in list(traces):
        t.setdefault("kind", "hook")
        t.setdefault("tree", [])
        t.setdefault("objs", 0)
        t.setdefault("n_nodes", 0)
        if t["tree"]:
            c = dict(t, id="%sf" % t["id"], kind="final", ev=[e for e in t["ev"] if e["a"] in ("fitted", "row", "raised")])
            comp[t["id"]] = c["id"]
            traces.append(c)
    verdicts, st = tlc.validate("LogregTrace", "LogregTrace.cfg", traces, timeout=2400)
    ctx.states += st["states"]
    ctx.transitions += st["transitions"]
    byid = {t["id"]: t for t in traces}
    ctx.verdicts({k: v for k, v in verdicts.items() if k not in comp}, byid, SITE, classify=classify)
    for tid_, cid in comp.items():
        v = verdicts[tid_]
        ctx.traces += 1
        if not v.ok and verdicts[cid].ok:
            ctx.model_drift("DecisionTreeLogisticRegression.fit is not a run of the LogregTree stack machine (%s)" % classify(byid[tid_], v)[0],
                            SITE, v.describe())
    ctx.extra.setdefault("trace_runs", []).append(dict(spec="LogregTrace", traces=len(traces), **st))
    ctx.exhaustive = False
    ctx.rule = ("MC: every tree the recursion can build for <=%d rows (all split outcomes, depth/leaf/split parameters), all "
                "tri-state rows for the three traversals. C2S: seeded binary data (any two label values) x hyper-parameters x "
                "base estimators (exact lookup stub with ties at the threshold, LogisticRegression with every fit_improve_algo, "
                "a decision tree): one enter/split/exit event per node (hook H2) validated against the stack machine, then "
                "per probe row the spec walks the tree from per-node comparisons and checks decision_path, predict_proba, "
                "predict. non-trivial = trees with >= 3 nodes." % (9 if thorough else 7))
    ctx.assumptions += ["for real learners, probe rows within 1e-9 of a threshold are skipped (the comparison is not reproducible "
                        "outside the library's own batched call); exact ties are exercised with the lookup stub"]


if __name__ == "__main__":
    raise SystemExit(main("C10", run))
