"""C11 - ExtendedFeatures generates exactly scikit-learn's polynomial features (spec: PolyFeatures)."""
import numpy
from .. import boot, tlc
from ..core import main

PRIMES = [2, 3, 5, 7, 11, 13, 17, 19]
KSITE = "mlmodel._extended_features_polynomial"
ESITE = "mlmodel.ExtendedFeatures"


def factor(v, n):
    v = int(round(float(v)))
    if v <= 0:
        return [-1]
    bag = []
    for j in range(n):
        while v % PRIMES[j] == 0:
            v //= PRIMES[j]
            bag.append(j)
    return bag if v == 1 else [-1]


class Rec(numpy.ndarray):
    """Output array that records every write the kernel performs on it."""
    log = None
    root = None

    def __array_finalize__(self, obj):
        if obj is not None:
            self.log = getattr(obj, "log", None)
            self.root = getattr(obj, "root", None)

    def __setitem__(self, key, value):
        if self.log is not None and self.root is not None and isinstance(key, tuple) and len(key) == 2:
            c = key[1]
            if isinstance(c, slice):
                lo, hi, _ = c.indices(self.shape[1])
                self.log.append(dict(a="copy", lo=lo, hi=hi, i=-1, pos=lo, npos=hi))
            else:
                self.log.append(dict(a="bias", lo=int(c), hi=int(c) + 1, i=-1, pos=int(c), npos=int(c) + 1))
        numpy.ndarray.__setitem__(self, key, value)


def _coloff(view, root):
    return (view.__array_interface__["data"][0] - root.__array_interface__["data"][0]) // root.strides[1]


def run_kernel(n, degree, io, bias, width):
    from mlinsights.mlmodel import _extended_features_polynomial as K
    X = numpy.array([PRIMES[:n], [p + 1 for p in PRIMES[:n]]], dtype=numpy.float64)
    base = numpy.full((2, width + 3), -7.0)       # 3 guard columns: the kernel must not reach them
    XP = base.view(Rec)
    log = []
    XP.log = log
    XP.root = base

    def multiply(A, B, C):
        a = _coloff(A, base)
        pos = _coloff(C, base)
        i = (B.__array_interface__["data"][0] - X.__array_interface__["data"][0]) // X.strides[1]
        log.append(dict(a="mul", lo=int(a), hi=int(a + A.shape[1]), i=int(i), pos=int(pos), npos=int(pos + C.shape[1])))
        return numpy.multiply(numpy.asarray(A), numpy.asarray(B), out=numpy.asarray(C))

    fct = K._transform_ionly if io else K._transform_iall
    fct(degree, bias, XP, X, multiply, lambda x: x)
    filled = [c for c in range(base.shape[1]) if base[0, c] != -7.0]
    w = (max(filled) + 1) if filled else 0
    cols = [factor(base[0, c], n) for c in range(w)]
    log.append(dict(a="final", cols=cols, width=w))
    return log


def sk_bags(n, degree, io, bias):
    from sklearn.preprocessing import PolynomialFeatures
    pf = PolynomialFeatures(degree=degree, interaction_only=io, include_bias=bias).fit(numpy.zeros((1, n)))
    return [[j for j in range(n) for _ in range(int(row[j]))] for row in pf.powers_], pf


def parse_name(s, n):
    if s == "1":
        return []
    bag = []
    for tok in s.split():
        name, _, e = tok.partition("^")
        if not name.startswith("x") or not name[1:].isdigit():
            return [-1]
        bag += [int(name[1:])] * (int(e) if e else 1)
    return sorted(bag)


GIVEN = ["len", "len_sq", "n", "len_sq_n", "w", "w2", "len2", "x1"]      # caller-supplied column names, some contained in others


def parse_given(s, given):
    if s == "1":
        return []
    bag = []
    for tok in s.split():
        name, _, e = tok.partition("^")
        if name not in given:
            return [-1]
        bag += [given.index(name)] * (int(e) if e else 1)
    return sorted(bag)


def _np(rng, degree, io, bias):
    """The same configuration as numpy scalars (what a parameter grid built with numpy hands over)."""
    r = rng.random()
    if r < 0.3:
        return numpy.int64(degree), numpy.bool_(io), numpy.bool_(bias)
    return degree, io, bias


def run_est(ctx, n, degree, io, bias, kind, rng, ef=None, keep_params=False):
    """One block on estimator `ef` (a fresh one if None): set_params, fit, transform, names."""
    from mlinsights.mlmodel import ExtendedFeatures
    skb, pf = sk_bags(n, degree, io, bias)
    rows = [PRIMES[:n]] + [[rng.randint(-3, 4) for _ in range(n)] for _ in range(3)]
    X = numpy.array(rows, dtype=numpy.float64)
    pd_, pio, pb = _np(rng, degree, io, bias)
    if ef is None:
        ef = ExtendedFeatures(kind=kind, poly_degree=pd_, poly_interaction_only=pio, poly_include_bias=pb)
    elif not keep_params:       # keep_params: the configuration of the previous block is what the user asked for, untouched
        ef.set_params(kind=kind, poly_degree=pd_, poly_interaction_only=pio, poly_include_bias=pb)
    out = ef.fit(X).transform(X)
    ref = pf.transform(X)
    cols = [factor(v, n) for v in out[0]]
    names = [parse_name(s, n) for s in ef.get_feature_names_out()]
    given = GIVEN[:n]
    names_given = [parse_given(s, given) for s in ef.get_feature_names_out(given)]
    # a second call on other values of the same shape (train / test halves): both results are right afterwards
    snap = out.copy()
    X2 = X[::-1] * 2.0 + 1.0
    out2 = ef.transform(X2)
    kept = bool(numpy.array_equal(out, snap) and numpy.array_equal(out2, pf.transform(X2)))
    return dict(names_given=names_given, kept=kept, n=n, degree=degree, io=io, bias=bias, kind=kind, cols=cols, names=names,
                nout=int(ef.n_output_features_), skcols=skb,
                eqsk=bool(out.shape == ref.shape and numpy.array_equal(out, ref)))


def run_history(ctx, rng, length):
    """A history of blocks on ONE instance (refits with other configurations / other widths)."""
    from mlinsights.mlmodel import ExtendedFeatures
    ef = ExtendedFeatures()
    ev = []
    n = rng.randint(1, 4)
    cfg = None
    for _ in range(length):
        if cfg is not None and rng.random() < 0.35:
            # the same instance, the same configuration, fitted again on a table of another width
            n = rng.choice([w for w in (1, 2, 3, 4, 5) if w != n])
            ev.append(run_est(ctx, n, cfg[0], cfg[1], cfg[2], cfg[3], rng, ef=ef, keep_params=True))
            continue
        if rng.random() < 0.4:
            n = rng.randint(1, 4)
        cfg = (rng.randint(1, 4), rng.random() < 0.5, rng.random() < 0.5, rng.choice(["poly", "poly-slow"]))
        ev.append(run_est(ctx, n, cfg[0], cfg[1], cfg[2], cfg[3], rng, ef=ef))
    return ev


def _sig(c):
    return "io=%s bias=%s %s" % (c["io"], c["bias"], "deg>n" if c["degree"] > c["n"] else "deg<=n")


KDRIFT = []


def run(ctx):
    del KDRIFT[:]
    boot.load(need_ext=True)
    thorough = ctx.tier == "thorough"
    N, D = (6, 6) if thorough else (5, 5)
    invs = "".join("INVARIANT %s\n" % i for i in
                   ("NoCrash", "SameColumns", "PosIsWidth", "NOutputMatches", "NamesMatch", "PosInvariant"))
    base = "SPECIFICATION Spec\nCONSTANTS MaxN = %d\n MaxDeg = %d\n" % (N, D)
    r = ctx.add_mc("PolyFeatures(%d,%d)" % (N, D), tlc.run("MC_PolyFeatures", base + invs, workers=8, coverage=True))
    ctx.require_coverage(r, ["Bias", "DegLoop", "Copy", "Inner", "InnerEnd", "EndDeg", "Names"], "PolyFeatures")

    # ---- S2C: every configuration of the model: predicted write sequence, columns and names
    res = tlc.must_ok(tlc.run("MC_PolyFeatures", base + "CONSTRAINT Emit\n", workers=1), "emit PolyFeatures")
    seen = set()
    for case in res.json:
        key = (case["n"], case["degree"], case["io"], case["bias"])
        if key in seen:
            continue
        seen.add(key)
        n, degree, io, bias = key
        ctx.case(key, nontrivial=degree >= 2,
                 sample=dict(kind="s2c", n=n, degree=degree, io=io, bias=bias, calls=case["calls"][:4], cols=case["cols"][:8]))
        ctx.traces += 1
        want_calls = [dict(a=c["op"], lo=c["a"], hi=c["b"], i=c["i"], pos=c["pos"], npos=c["npos"]) for c in case["calls"]]
        try:
            log = run_kernel(n, degree, io, bias, len(case["cols"]))
        except Exception as e:
            log = None
            KDRIFT.append(("the kernel cannot be driven as modelled", repr(e)[:200]))
        # the compiled kernel is an internal helper: its call protocol and write sequence are the MECHANISM layer (a
        # deviation is MODEL-DRIFT); the estimator below is what the property speaks about
        if log is not None and log[:-1] != want_calls:
            KDRIFT.append(("the kernel writes its columns in another sequence than PolyFeatures", dict(got=log[:-1][:6], want=want_calls[:6])))
        if log is not None and log[-1]["cols"] != case["cols"]:
            KDRIFT.append(("the kernel alone does not produce the columns (the estimator is decided separately)", dict(got=log[-1]["cols"][:8])))
        skb, _ = sk_bags(n, degree, io, bias)
        if skb != case["cols"]:
            raise tlc.TLCError("spec Comb differs from sklearn powers_ for %r" % (key,))
        for kind in ("poly", "poly-slow"):
            try:
                t = run_est(ctx, n, degree, io, bias, kind, ctx.rng)
            except Exception as e:
                ctx.violation("EstimatorRuns", ESITE, _sig(case) + " " + kind, repr(e), case=key)
                continue
            if t["cols"] != case["cols"] or not t["eqsk"]:
                ctx.violation("SameColumns", ESITE, _sig(case) + " " + kind, dict(got=t["cols"], want=case["cols"], eqsk=t["eqsk"]), case=key)
            if t["names"] != case["names"]:
                ctx.violation("NamesMatch", ESITE, _sig(case) + " " + kind, dict(got=t["names"], want=case["names"]), case=key)
            if t["nout"] != len(case["cols"]):
                ctx.violation("NOutput", ESITE, _sig(case) + " " + kind, dict(got=t["nout"], want=len(case["cols"])), case=key)

    # ---- C2S: larger configurations, validated event by event by PolyTrace / PolyEstTrace
    rng = ctx.rng
    ktr, etr = [], []
    cfgs = set()
    target = 160 if thorough else 24
    tries = 0
    while len(cfgs) < target and tries < 1000:
        tries += 1
        n = rng.randint(1, 8)
        degree = rng.randint(1, 7)
        io, bias = rng.random() < 0.5, rng.random() < 0.5
        # keep the output width (and TLC's Comb enumeration) moderate
        from math import comb
        width = sum((comb(n, k) if io else comb(n + k - 1, k)) for k in range(0, degree + 1))
        if width > (700 if thorough else 400) or n ** degree > 300000 or PRIMES[n - 1] ** degree > 2 ** 50:
            continue
        cfgs.add((n, degree, io, bias))
    for k, (n, degree, io, bias) in enumerate(sorted(cfgs)):
        c = dict(n=n, degree=degree, io=io, bias=bias)
        ctx.case(("c2s",) + (n, degree, io, bias), nontrivial=degree >= 2)
        try:
            from math import comb
            width = sum((comb(n, k2) if io else comb(n + k2 - 1, k2)) for k2 in range(0 if bias else 1, degree + 1))
            log = run_kernel(n, degree, io, bias, width)
            ktr.append(dict(id=k + 1, sig=_sig(c), site=KSITE, ev=log, **c))
        except Exception as e:
            KDRIFT.append(("the kernel cannot be driven as modelled", repr(e)[:200]))
        for kind in ("poly", "poly-slow"):
            try:
                t = run_est(ctx, n, degree, io, bias, kind, rng)
                etr.append(dict(id=len(etr) + 1, sig=_sig(c) + " " + kind, site=ESITE, ev=[t]))
            except Exception as e:
                ctx.violation("EstimatorRuns", ESITE, _sig(c) + " " + kind, repr(e), case=c)
    for _ in range(600 if thorough else 40):
        try:
            ev = run_history(ctx, rng, rng.randint(2, 4))
            etr.append(dict(id=len(etr) + 1, sig="history", site=ESITE, ev=ev))
            ctx.case(("hist", tuple((e["n"], e["degree"], e["io"], e["bias"], e["kind"]) for e in ev)))
        except Exception as e:
            ctx.violation("EstimatorRuns", ESITE, "history", repr(e))
    for mod, trs in (("PolyTrace", ktr), ("PolyEstTrace", etr)):
        verdicts, st = tlc.validate(mod, "PolyTrace.cfg", trs, timeout=1200)
        ctx.states += st["states"]
        ctx.transitions += st["transitions"]
        if mod == "PolyEstTrace":
            ctx.verdicts(verdicts, {t["id"]: t for t in trs}, ESITE)
        else:
            for t in trs:
                ctx.traces += 1
                if not verdicts[t["id"]].ok:
                    KDRIFT.append(("kernel trace is not a behaviour of PolyFeatures", verdicts[t["id"]].describe()[:300]))
        ctx.extra.setdefault("trace_runs", []).append(dict(spec=mod, traces=len(trs), **st))
    if KDRIFT and not ctx.violations:
        for what, det in KDRIFT:
            ctx.model_drift(what, KSITE, det)
    elif KDRIFT:
        ctx.notes.append("kernel-level deviations seen together with estimator-level violations: %d" % len(KDRIFT))
    ctx.exhaustive = True
    ctx.rule = ("S2C: every (n<=%d, degree<=%d, interaction_only, include_bias) of the model-checked PolyFeatures "
                "state space (%d configurations): the kernel's write sequence (recording output array + multiply "
                "callback), factorised output columns on a row of distinct primes, names, n_output_features_, both "
                "kinds, and scikit-learn's powers_ as a cross-check of the spec's Comb; C2S: %d larger configurations "
                "(n<=8, degree<=7) validated event by event. non-trivial = degree >= 2." % (N, D, len(seen), len(cfgs)))
    ctx.assumptions += ["the kernels are data independent (they only multiply column blocks), so equality of monomial "
                        "bags on a row of distinct primes implies equality for every real matrix",
                        "names are compared as monomials (factor order inside a name is not constrained)"]


if __name__ == "__main__":
    raise SystemExit(main("C11", run))
