"""C12 - tree utilities are faithful to the tree's decision function (specs: DigitizeTree, TreeBox)."""
import numpy
from .. import boot, tlc
from ..core import main

DSITE = "mltree.digitize2tree"
TSITE = "mltree.tree_structure"
NEG, POS = -100000, 100000


# ------------------------------------------------------------------ digitize2tree
def _f32down(v):
    f = numpy.float32(v)
    if float(f) >= v:
        f = numpy.nextafter(f, numpy.float32(-numpy.inf))
    return float(f)


def _f32up(v):
    f = numpy.float32(v)
    if float(f) <= v:
        f = numpy.nextafter(f, numpy.float32(numpy.inf))
    return float(f)


def run_digitize(sorted_bins, asc, exact=True, dtype=numpy.float64):
    """sorted_bins: strictly increasing list of floats. exact=True: the edges are exact in float32 and are queried
    themselves; exact=False: arbitrary float64 edges, queried at their float32 neighbours (scikit-learn's predict casts
    x to float32: the last float32 below an edge is in the edge's own interval (.., edge], the first one above is in
    the next interval).  Returns the event list."""
    from mlinsights.mltree import tree_digitize as TD
    n = len(sorted_bins)
    bins = numpy.array(sorted_bins if asc else sorted_bins[::-1], dtype=dtype)
    pos = {float(v): k for k, v in enumerate(sorted_bins)}
    ev = []
    orig = TD.tree_add_node

    def rec(tree, parent, is_left, is_leaf, feature, threshold, *rest):
        k = orig(tree, parent, is_left, is_leaf, feature, threshold, *rest)
        ev.append(dict(a="add", parent=int(parent), left=bool(is_left), leaf=bool(is_leaf),
                       th=-1 if is_leaf else pos.get(float(threshold), -9), node=int(k)))
        return k
    TD.tree_add_node = rec
    try:
        tree = TD.digitize2tree(bins, right=True)
    finally:
        TD.tree_add_node = orig
    q = []
    for code in range(1, 2 * n + 2):
        b = code // 2
        if code % 2 == 0:
            q.append(sorted_bins[b - 1] if exact else _f32down(sorted_bins[b - 1]))
        elif b == 0:
            q.append(float(numpy.float32(sorted_bins[0] - 1.0)))
        elif b == n:
            q.append(float(numpy.float32(sorted_bins[-1] + 1.0)) if exact or code % 4 == 1 else _f32up(sorted_bins[-1]))
        else:
            q.append((sorted_bins[b - 1] + sorted_bins[b]) / 2 if exact else _f32up(sorted_bins[b - 1]))
    x = numpy.array(q, dtype=numpy.float64)
    pred = tree.predict(x.reshape((-1, 1)))
    vals = tree.tree_.value[:, 0, 0]
    ev.append(dict(a="final",
                   values=[-1 if numpy.isnan(v) else int(round(v)) for v in vals],
                   pred=[int(round(p)) if p == p else -7 for p in pred],
                   numpy=[int(v) for v in numpy.digitize(x, bins, right=True)]))
    for e in ev[:-1]:
        e.pop("node")
    t = tree.tree_
    table = dict(left=[int(v) for v in t.children_left], right=[int(v) for v in t.children_right],
                 th=[-1 if t.children_left[k] < 0 else pos.get(float(t.threshold[k]), -9) for k in range(t.node_count)],
                 values=ev[-1]["values"], pred=ev[-1]["pred"], numpy=ev[-1]["numpy"])
    return ev, table


def digitize_part(ctx, thorough):
    """Two layers (DESIGN 2.2).  Demanded: the finished tree computes numpy.digitize on every query class - decided by
    DigitizeFnTrace on the node table, whatever algorithm built it.  Mechanism: the recorded tree_add_node calls are the
    node sequence of the DigitizeTree model - a mismatch there, with the demanded layer satisfied, is MODEL-DRIFT."""
    MB = 48 if thorough else 12
    invs = "".join("INVARIANT %s\n" % i for i in ("IsDigitize", "AllCasesHandled", "WellFormed", "LeavesCoverBins"))
    base = "SPECIFICATION Spec\nCONSTANTS MaxBins = %d\n" % MB
    r = ctx.add_mc("DigitizeTree(%d)" % MB, tlc.run("MC_DigitizeTree", base + invs, workers=8, coverage=True))
    ctx.require_coverage(r, ["AddRoot", "AddNode", "Finish"], "DigitizeTree")
    res = tlc.must_ok(tlc.run("MC_DigitizeTree", base + "CONSTRAINT Emit\n", workers=1), "emit DigitizeTree")
    seen = set()
    fn_traces, mech_traces = [], []

    def fn_trace(n, asc, sig, table, bins=()):
        if -9 in table["th"]:
            # a split that is not on a bin edge: the classes are not exhaustive for this tree; the sampled predictions
            # (edges, their neighbours, midpoints, beyond) are still compared with numpy.digitize
            ctx.skipped.append("digitize2tree(%s, n=%d): a threshold is not a bin edge; decided on the sampled classes only" % (sig, n))
            if table["pred"] != table["numpy"]:
                ctx.violation("IsDigitize", DSITE, sig, dict(pred=table["pred"], numpy=table["numpy"]), case=dict(n=n, asc=asc, bins=bins))
            return
        fn_traces.append(dict(id="fn%d" % (len(fn_traces) + 1), n=n, asc=asc, sig=sig, site=DSITE, bins=list(bins), **table))

    for case in res.json:
        key = (case["n"], case["asc"])
        if key in seen:
            continue
        seen.add(key)
        n, asc = key
        sig = "asc" if asc else "desc"
        ctx.case(("dig",) + key, nontrivial=n >= 2, sample=dict(kind="s2c-digitize", n=n, asc=asc, nodes=case["nodes"][:5]))
        ctx.traces += 1
        sb = [0.25 * 2 * (b + 1) for b in range(n)]
        try:
            ev, table = run_digitize(sb, asc)
        except Exception as e:
            ctx.violation("CallSucceeds", DSITE, sig, repr(e), case=key)
            continue
        fn_trace(n, asc, sig, table)
        if table["numpy"] != case["pred"]:
            raise tlc.TLCError("spec Digitize differs from numpy.digitize for %r" % (key,))
        want = [dict(a="add", parent=nd["parent"], left=nd["left"], leaf=nd["leaf"], th=nd["th"]) for nd in case["nodes"]]
        if ev[:-1] != want or ev[-1]["values"] != [nd["val"] for nd in case["nodes"]]:
            ctx.model_drift("digitize2tree builds another node sequence than DigitizeTree", DSITE,
                            dict(n=n, asc=asc, got=ev[:-1][:6], want=want[:6]))
    # C2S
    rng = ctx.rng
    for k in range(500 if thorough else 40):
        n = rng.choice([1, 2, 3, rng.randint(4, 40), rng.randint(13, 90 if thorough else 60)])
        vals = sorted(rng.sample(range(-400, 400), n))
        exact = rng.random() < 0.5
        # exact: dyadic edges; otherwise edges that float32 cannot hold (tenths, thirds plus noise), >= 1/8 apart
        sb = [v / 8.0 for v in vals] if exact else [v / 8.0 + rng.choice([0.1, 1.0 / 3, 0.01]) * rng.random() / 8 for v in vals]
        asc = rng.random() < 0.5 or n == 1
        dtype = numpy.float64
        if exact and rng.random() < 0.4:
            # integer edges in the dtype the caller happens to hold them in (signed, unsigned, float32)
            dtype = rng.choice([numpy.int64, numpy.int32, numpy.uint8, numpy.uint16, numpy.uint32, numpy.float32])
            vals = sorted(rng.sample(range(0, 250), min(n, 200)))
            n = len(vals)
            sb = [float(v) for v in vals]
        sig = ("asc" if asc else "desc") + ("" if exact else " float64 edges") + ("" if dtype is numpy.float64 else " " + numpy.dtype(dtype).name)
        ctx.case(("digc", n, asc, tuple(vals), exact, numpy.dtype(dtype).name), nontrivial=n >= 2)
        try:
            ev, table = run_digitize(sb, asc, exact, dtype)
        except Exception as e:
            ctx.violation("CallSucceeds", DSITE, sig, repr(e), case=dict(bins=sb, asc=asc))
            continue
        fn_trace(n, asc, sig, table, bins=sb)
        mech_traces.append(dict(id=k + 1, n=n, asc=asc, ev=ev, sig=sig, site=DSITE, bins=sb))
    verdicts, st = tlc.validate("DigitizeFnTrace", "DigitizeFnTrace.cfg", fn_traces)
    ctx.states += st["states"]
    ctx.transitions += st["transitions"]
    ctx.verdicts(verdicts, {t["id"]: t for t in fn_traces}, DSITE)
    ctx.extra.setdefault("trace_runs", []).append(dict(spec="DigitizeFnTrace", traces=len(fn_traces), **st))
    bad_fn = {t["id"] for t in fn_traces if not verdicts[t["id"]].ok}
    # mechanism layer
    verdicts, st = tlc.validate("DigitizeTrace", "DigitizeTrace.cfg", mech_traces)
    ctx.states += st["states"]
    ctx.transitions += st["transitions"]
    ctx.extra.setdefault("trace_runs", []).append(dict(spec="DigitizeTrace", traces=len(mech_traces), **st))
    for t in mech_traces:
        v = verdicts[t["id"]]
        ctx.traces += 1
        if not v.ok and not bad_fn:
            ctx.model_drift("digitize2tree builds another node sequence than DigitizeTree", DSITE, v.describe())
    return len(seen)


# ------------------------------------------------------------------ tree_structure
def build_tree(left, right, feat, th, nfeat):
    """Realise a node table as a real scikit-learn tree (through the repo's own tree_add_node)."""
    from sklearn.tree._tree import Tree
    from sklearn.tree import DecisionTreeRegressor
    from mlinsights.mltree._tree_digitize import tree_add_node
    tree = Tree(nfeat, numpy.array([1], dtype=numpy.intp), 1)
    par = {}
    for k in range(len(left)):
        if left[k] >= 0:
            par[left[k]] = (k, True)
            par[right[k]] = (k, False)
    for k in range(len(left)):
        p, isl = par.get(k, (-1, False))
        leaf = left[k] < 0
        got = tree_add_node(tree, p, isl, leaf, 0 if leaf else feat[k], 0.0 if leaf else th[k] / 2.0, 0, 1, 1.0, 0)
        assert got == k
    depth = {0: 0}
    for k in range(1, len(left)):
        depth[k] = depth[par[k][0]] + 1
    tree.max_depth = max(depth.values())      # decision_path sizes its buffers with it
    cl = DecisionTreeRegressor()
    cl.tree_ = tree
    cl.tree_.value[:, 0, 0] = numpy.arange(len(left), dtype=numpy.float64)
    cl.n_outputs = 1
    cl.n_outputs_ = 1
    cl.n_features_in_ = nfeat
    return cl


def _box(ra):
    out = []
    for lo, hi in numpy.asarray(ra, dtype=float):
        lo2 = NEG if numpy.isnan(lo) else lo * 2
        hi2 = POS if numpy.isnan(hi) else hi * 2
        if lo2 != round(lo2) or hi2 != round(hi2):
            return None
        out.append([int(round(lo2)), int(round(hi2))])
    return out


def _as_set(box):
    """a box as the constraints it puts on points: rows that bound nothing (-inf, +inf) do not count"""
    return {f: (int(b[0]), int(b[1])) for f, b in enumerate(box) if (int(b[0]), int(b[1])) != (NEG, POS)}


def observe_tree(model, nfeat, qpoints2):
    """qpoints2: query points in doubled integer coordinates."""
    from mlinsights.mltree import tree_leave_index, tree_node_range, predict_leaves
    t = model.tree_
    leaves = [int(v) for v in tree_leave_index(model)]
    true_leaves = [k for k in range(t.node_count) if t.children_left[k] == -1 and t.children_right[k] == -1]
    ranges = []
    for lf in true_leaves:
        try:
            ra = tree_node_range(model, lf)
            b = _box(ra)
            if b is None:
                ranges.append(dict(leaf=lf, raised=False, box=[[NEG + 1, NEG + 1]]))  # not on the lattice: never equal
            else:
                ranges.append(dict(leaf=lf, raised=False, box=b))
        except Exception as e:
            ranges.append(dict(leaf=lf, raised=True, box=[], err=repr(e)))
    Xq = numpy.array(qpoints2, dtype=numpy.float64).reshape((-1, nfeat)) / 2.0
    pl = predict_leaves(model, Xq)
    ap = model.apply(Xq)
    queries = [dict(x=[int(v) for v in q], leaf=int(a), apply=int(b)) for q, a, b in zip(qpoints2, pl, ap)]
    return dict(leaves=leaves, ranges=ranges, queries=queries)


def tree_arrays(model):
    t = model.tree_
    th2 = []
    for k in range(t.node_count):
        if t.children_left[k] == -1:
            th2.append(-2)
        else:
            v = t.threshold[k] * 2
            if v != round(v):
                return None
            th2.append(int(round(v)))
    return dict(left=[int(v) for v in t.children_left], right=[int(v) for v in t.children_right],
                feat=[int(v) for v in t.feature], th=th2)


def _tsig(tr):
    return "nodes=%s" % ("1" if len(tr["left"]) == 1 else ">1")


def classify_tree(t, v):
    clause = v.fails[0][0] if v.fails else "NotABehaviour"
    return clause, _tsig(t)


def treebox_part(ctx, thorough):
    consts = dict(MaxNodes=7, NFeat=2, Ths="{1, 3, 5}" if thorough else "{1, 3}", Grid="{0, 2, 4, 6}" if thorough else "{0, 2, 4}")
    base = ("SPECIFICATION Spec\nCONSTANTS MaxNodes = %(MaxNodes)d\n NFeat = %(NFeat)d\n Ths = %(Ths)s\n Grid = %(Grid)s\n" % consts)
    invs = "".join("INVARIANT %s\n" % i for i in ("LeavesExact", "BoxDefined", "BoxIffRouted", "PredictIsApply", "PathEndsAtNode"))
    ctx.add_mc("TreeBox", tlc.run("TreeBox", base + " DEV_RootLeafRaises = FALSE\n" + invs + "CHECK_DEADLOCK FALSE\n",
                                  workers=16, coverage=True, timeout=1500))
    ctx.add_mc("TreeBox[DEV_RootLeafRaises]", tlc.run(
        "TreeBox", "SPECIFICATION Spec\nCONSTANTS MaxNodes = 3\n NFeat = 1\n Ths = {1}\n Grid = {0, 2}\n DEV_RootLeafRaises = TRUE\n"
        "INVARIANT BoxDefined\nCHECK_DEADLOCK FALSE\n", workers=1), expect_violation="BoxDefined")
    # S2C: every tree of a (smaller) exhaustive space, realised as a real sklearn Tree
    sbase = ("SPECIFICATION Spec\nCONSTANTS MaxNodes = %d\n NFeat = 2\n Ths = {1, 3}\n Grid = {0, 2, 4}\n DEV_RootLeafRaises = FALSE\n"
             "CONSTRAINT Emit\nCHECK_DEADLOCK FALSE\n" % (7 if thorough else 5))
    res = tlc.must_ok(tlc.run("MC_TreeBox", sbase, workers=1, timeout=1500), "emit TreeBox")
    seen = set()
    for case in res.json:
        key = (tuple(case["left"]), tuple(case["right"]), tuple(case["feat"]), tuple(case["th"]))
        if key in seen:
            continue
        seen.add(key)
        ctx.case(("tree",) + key, nontrivial=len(case["left"]) >= 3,
                 sample=dict(kind="s2c-tree", left=case["left"], right=case["right"], feat=case["feat"], th=case["th"],
                             ranges=case["ranges"][:2]))
        ctx.traces += 1
        sig = _tsig(case)
        try:
            model = build_tree(case["left"], case["right"], case["feat"], case["th"], 2)
            obs = observe_tree(model, 2, [p["x"] for p in case["pts"]])
        except Exception as e:
            ctx.violation("CallSucceeds", TSITE, sig, repr(e), case=case)
            continue
        if obs["leaves"] != case["leaves"]:
            ctx.violation("LeavesExact", TSITE, sig, dict(got=obs["leaves"], want=case["leaves"]), case=case)
        for o, w in zip(obs["ranges"], case["ranges"]):
            if o["raised"]:
                ctx.violation("BoxDefined", TSITE + ".tree_node_range", sig, o.get("err"), case=case)
            elif o["leaf"] != w["leaf"] or _as_set(o["box"]) != _as_set(w["box"]):
                ctx.violation("NodeRangeIsPathBox", TSITE + ".tree_node_range", sig, dict(got=o, want=w), case=case)
        for o, w in zip(obs["queries"], case["pts"]):
            if o["apply"] != w["leaf"]:
                raise tlc.TLCError("spec Route differs from sklearn apply on %r" % (case,))
            if o["leaf"] != w["leaf"]:
                ctx.violation("PredictLeavesIsApply", TSITE + ".predict_leaves", sig, dict(x=o["x"], got=o["leaf"], want=w["leaf"]), case=case)
    # C2S: fitted trees
    from sklearn.tree import DecisionTreeRegressor, DecisionTreeClassifier, ExtraTreeRegressor
    rng = ctx.rng
    traces = []
    for k in range(2000 if thorough else 80):
        d = rng.randint(1, 3)
        n = rng.randint(1, 30)
        R = rng.randint(1, 6)
        X = numpy.array([[rng.randint(-R, R) for _ in range(d)] for _ in range(n)], dtype=numpy.float64)
        kind = rng.choice(["reg", "clf", "reg-bestfirst", "const"])
        if kind == "const":
            y = numpy.ones(n)
        elif kind == "clf":
            y = numpy.array([rng.randint(0, 3) for _ in range(n)])
        else:
            y = numpy.array([float(rng.randint(0, 9)) for _ in range(n)])
        kw = dict(random_state=rng.randint(0, 10 ** 6))
        if rng.random() < 0.6:
            kw["max_depth"] = rng.randint(1, 5)
        if kind == "reg-bestfirst":
            kw["max_leaf_nodes"] = rng.randint(2, 9)
        cls = DecisionTreeClassifier if kind == "clf" else DecisionTreeRegressor
        model = cls(**kw)
        if rng.random() < 0.4 and n >= 3:
            # an earlier life of the estimator object: another tree with the SAME number of nodes where possible (same
            # max_leaf_nodes, rows permuted and shifted), every helper called once - nothing of it may survive the refit
            from mlinsights.mltree import tree_leave_index, predict_leaves, tree_node_range
            try:
                X0 = X[::-1].copy()
                X0[:, 0] = -X0[:, 0] + 1
                model.fit(X0, y)
                predict_leaves(model, X0[:2]), tree_leave_index(model)
                for lf in tree_leave_index(model)[:2]:
                    tree_node_range(model, lf)
            except Exception:
                pass
        model.fit(X, y)
        arr = tree_arrays(model)
        if arr is None:
            continue
        pts = set()
        for _ in range(40):
            pts.add(tuple(2 * rng.randint(-R - 1, R + 1) for _ in range(d)))
        pts = sorted(pts)
        t = dict(id=k + 1, nfeat=d, site=TSITE, **arr)
        t["sig"] = _tsig(t)
        ctx.case(("fit", tuple(arr["left"]), tuple(arr["feat"]), tuple(arr["th"])), nontrivial=len(arr["left"]) >= 3)
        try:
            t.update(observe_tree(model, d, [list(p) for p in pts]))
        except Exception as e:
            ctx.violation("CallSucceeds", TSITE, t["sig"], repr(e), case=arr)
            continue
        traces.append(t)
        if k % 25 == 0:
            # a batch of tens of thousands of rows (block-wise implementations have edges there): the same answer as
            # scikit-learn's own routing, row by row
            from mlinsights.mltree import predict_leaves as _pl
            nq = rng.choice([50001, 33000, 70123])
            Q = numpy.array([[rng.randint(-R - 1, R + 1) for _ in range(d)] for _ in range(257)], dtype=numpy.float64)[
                numpy.array([rng.randrange(257) for _ in range(nq)])]
            ctx.evaluations += 1
            try:
                got = numpy.asarray(_pl(model, Q)).ravel()
                want = model.apply(Q)
                if got.shape != want.shape or not numpy.array_equal(got, want):
                    bad = int(numpy.flatnonzero(got != want)[0]) if got.shape == want.shape else -1
                    ctx.violation("PredictLeavesIsApply", TSITE + ".predict_leaves", "batch of %d rows" % nq,
                                  dict(first_bad_row=bad, n=nq), case=arr)
            except Exception as e:
                ctx.violation("CallSucceeds", TSITE + ".predict_leaves", "batch of %d rows" % nq, repr(e), case=arr)
    verdicts, st = tlc.validate("TreeBoxTrace", "TreeBoxTrace.cfg", traces)
    ctx.states += st["states"]
    ctx.transitions += st["transitions"]
    ctx.verdicts(verdicts, {t["id"]: t for t in traces}, TSITE, classify=classify_tree)
    ctx.extra.setdefault("trace_runs", []).append(dict(spec="TreeBoxTrace", traces=len(traces), **st))
    return len(seen)


def run(ctx):
    boot.load()
    thorough = ctx.tier == "thorough"
    nd = digitize_part(ctx, thorough)
    nt = treebox_part(ctx, thorough)
    ctx.exhaustive = True
    ctx.rule = ("digitize2tree: every (n bins <= bound, direction) of the DigitizeTree state space (%d cases) replayed: "
                "recorded tree_add_node sequence, node values and predictions on every on/between/beyond query class; "
                "random dyadic bins (n<=90) validated as traces. tree_structure: every tree of the TreeBox model "
                "(%d trees) realised as a real scikit-learn Tree; fitted regressors/classifiers (depth-first and "
                "best-first numbering, one-node trees) validated as traces. non-trivial = n>=2 bins / >=3 nodes."
                % (nd, nt))
    ctx.assumptions += ["query points are exact in float32 (scikit-learn's predict casts x to float32): dyadic edges are queried themselves, "
                        "arbitrary float64 edges at their two float32 neighbours",
                        "integer training data, so thresholds are half-integers and doubled coordinates are exact"]


if __name__ == "__main__":
    raise SystemExit(main("C12", run))
