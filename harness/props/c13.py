"""C13 - target transformations are undone exactly by their reciprocal (spec: TargetInv)."""
import itertools
import numpy
from .. import boot, tlc, stubs
from ..core import main

FSITE = "mlmodel.FunctionReciprocalTransformer"
PSITE = "mlmodel.PermutationReciprocalTransformer"
CSITE = "mlmodel.TransformedTargetClassifier2"
RSITE = "mlmodel.TransformedTargetRegressor2"

FCLS = {"LOG": numpy.log, "EXP": numpy.exp, "LOG1P": numpy.log1p, "EXPM1": numpy.expm1}
PTS = numpy.array([0.5, 1.0, 2.0, 3.5])


def classify_fct(f):
    try:
        v = numpy.asarray(f(PTS), dtype=float)
    except Exception:
        return "NONE"
    for name, g in FCLS.items():
        if v.shape == PTS.shape and numpy.allclose(v, g(PTS), rtol=1e-12, atol=0):
            return name
    return "NONE"


def classify_map(src, dst):
    for name, g in FCLS.items():
        with numpy.errstate(all="ignore"):
            w = g(src)
        if w.shape == dst.shape and numpy.all(numpy.isfinite(w)) and numpy.allclose(w, dst, rtol=1e-12, atol=1e-15):
            return name
    return "NONE"


def names_trace(ctx):
    from mlinsights.mlmodel import FunctionReciprocalTransformer as F
    table = []
    y = numpy.array([0.5, 1.0, 2.0, 3.5, numpy.nan])
    X = numpy.arange(10, dtype=float).reshape((5, 2))
    for name in sorted(F.available_fcts()):
        e = dict(name=name, cls="NONE", inv="?", invcls="NONE", roundtrip=False)
        try:
            tr = F(name).fit()
            e["cls"] = classify_fct(tr.fct_)
            X1, ty = tr.transform(X.copy(), y.copy())
            inv = tr.get_fct_inv()
            e["inv"] = inv.fct if isinstance(inv.fct, str) else "callable"
            e["invcls"] = classify_fct(inv.fct_)
            X2, back = inv.transform(X1, ty)
            e["roundtrip"] = bool(numpy.allclose(back[:4], y[:4], rtol=1e-9, atol=0) and numpy.isnan(back[4])
                                  and numpy.array_equal(X1, X) and numpy.array_equal(X2, X))
            # targets that are counts, held in an integer array: the transformed values are not integers
            yi = numpy.array([1, 2, 3, 7], dtype=numpy.int64)
            _, ti = tr.transform(X[:4].copy(), yi.copy())
            _, bi = inv.transform(X[:4].copy(), ti)
            e["roundtrip"] = bool(e["roundtrip"] and numpy.allclose(numpy.asarray(bi, dtype=float), yi, rtol=1e-9, atol=0))
            # the far ends of the domain, where the two functions are still exact inverses in double precision
            far = {"LOG": [2.0 ** -60, 1e-300, 1e300], "EXP": [-40.0, -700.0, 700.0]}.get(e["cls"])
            if far:
                yf = numpy.array(far + [numpy.nan])
                _, tf = tr.transform(X[:4].copy(), yf.copy())
                _, bf = inv.transform(X[:4].copy(), tf)
                e["roundtrip"] = bool(e["roundtrip"] and numpy.allclose(bf[:3], yf[:3], rtol=1e-9, atol=0) and numpy.isnan(bf[3]))
            # the hyper-parameter is changed after the fit and the transformer is not fitted again: whatever it applies
            # now, the transformer returned by get_fct_inv still undoes it
            for other in sorted(F.available_fcts()):
                if other == name:
                    continue
                tr.set_params(fct=other)
                _, t2 = tr.transform(X.copy(), y.copy())
                _, b2 = tr.get_fct_inv().transform(X.copy(), t2)
                e["roundtrip"] = bool(e["roundtrip"] and numpy.allclose(b2[:4], y[:4], rtol=1e-9, atol=0) and numpy.isnan(b2[4]))
                tr.set_params(fct=name)
        except Exception as ex:
            e["inv"] = "error: " + repr(ex)[:60]
        table.append(e)
    return dict(id="names", kind="names", table=table, site=FSITE, sig="name table")


OFF = [0]      # real label = trace label - OFF[0]: the specification keeps -1 for NaN, real label sets may be negative


def perm_trace(tid, labels, y, seed, rng):
    """labels: sorted list of ints; y: list with -1 for NaN."""
    off = OFF[0]
    from mlinsights.mlmodel import PermutationReciprocalTransformer as P
    ya = numpy.array([numpy.nan if v == -1 else float(v - off) for v in y])
    yfit = numpy.array([float(v) for v in labels if True])
    order = list(labels)
    rng.shuffle(order)
    yfit = numpy.array([float(v - off) for v in order])         # first-appearance order varies too
    X = numpy.arange(2 * len(y), dtype=float).reshape((len(y), 2))
    tr = P(random_state=seed)
    tr.fit(None, yfit)
    sigma = [[int(k) + off, int(v)] for k, v in tr.permutation_.items()]
    X1, ty = tr.transform(X.copy(), ya.copy())
    inv = tr.get_fct_inv()
    X2, back = inv.transform(X1, ty)
    m = len(labels)
    pin = [10 * (i + 1) + i * i for i in range(m)]
    _, pout = inv.transform(None, numpy.array([pin, pin], dtype=float))
    enc = lambda a: [-1 if numpy.isnan(v) else int(round(v)) for v in numpy.asarray(a, dtype=float).ravel()]
    encl = lambda a: [-1 if numpy.isnan(v) else int(round(v)) + off for v in numpy.asarray(a, dtype=float).ravel()]
    return dict(id=tid, kind="perm", labels=list(labels), sigma=sigma, y=list(y), ty=enc(ty), back=encl(back),
                features_untouched=bool(numpy.array_equal(X1, X) and numpy.array_equal(X2, X)),
                proba_in=pin, proba_out=enc(pout[0]), site=PSITE, sig="m=%d" % m, truth=0, S=[])


SHARED = {}


def tt2c_trace(tid, labels, y, seed, probe):
    """Every second trace re-uses ONE long-lived instance (set_params + refit + predict history): whatever an earlier
    fit learned must not leak into this block."""
    from mlinsights.mlmodel import TransformedTargetClassifier2, PermutationReciprocalTransformer as P
    n = len(y)
    X = numpy.array([[i, (3 * i) % 4] for i in range(n)], dtype=float)
    off = OFF[0]
    ya = numpy.array(y, dtype=numpy.int64) - off
    del stubs.LOG[:]
    if seed % 2:
        tt = TransformedTargetClassifier2(classifier=stubs.RecClf(), transformer=P(random_state=seed))
    else:
        tt = SHARED.setdefault("c", TransformedTargetClassifier2(classifier=stubs.RecClf(), transformer="permute"))
        tt.set_params(transformer=P(random_state=seed))
    if seed % 4 == 1:        # a weighted fit trains the inner classifier on the same (transformed) labels
        tt.fit(X, ya, sample_weight=numpy.array([1.0 + (i % 2) for i in range(n)]))
    else:
        tt.fit(X, ya)
    inner_train = [int(v) for nm, f in stubs.LOG if nm == "fitclf" for v in f["ys"]]
    sigma = [[int(k) + off, int(v)] for k, v in tt.transformer_.permutation_.items()]
    if seed % 3 == 0:
        # the caller hands the same transformer object to a second estimator trained on the labels in another order:
        # the first estimator keeps decoding with the permutation of ITS fit
        other = TransformedTargetClassifier2(classifier=stubs.RecClf(), transformer=tt.get_params(deep=False)["transformer"])
        other.fit(X[::-1].copy(), numpy.array(sorted(y, reverse=True), dtype=numpy.int64) - off)
    Xq = X[probe:probe + 1]
    plain = stubs.RecClf().fit(X, ya)
    S = [[int(c) + off, int(plain.score_[c])] for c in plain.classes_.tolist()]
    return dict(id=tid, kind="tt2c", labels=sorted(set(y)), sigma=sigma, y=list(y), truth=int(y[probe]), S=S,
                inner_train=inner_train, pred=int(tt.predict(Xq)[0]) + off, plain_pred=int(plain.predict(Xq)[0]) + off,
                proba=[int(round(v)) for v in tt.predict_proba(Xq)[0]],
                plain_proba=[int(round(v)) for v in plain.predict_proba(Xq)[0]],
                classes=[int(v) + off for v in tt.classes_], site=CSITE,
                sig="m=%d sigma=%s" % (len(set(y)), "id" if all(a == b for a, b in zip(
                    [s[1] for s in sorted(sigma)], range(len(sigma)))) else "non-id"))


def tt2r_trace(tid, name, shared=False):
    from mlinsights.mlmodel import TransformedTargetRegressor2
    y = numpy.array([0.5, 1.0, 2.0, 3.5, 0.75, 1.5])
    X = numpy.array([[i, i % 2] for i in range(len(y))], dtype=float)
    del stubs.LOG[:]
    if shared:      # one instance across all names: fit, predict, set_params(transformer=...), fit, predict, ...
        tt = SHARED.setdefault("r", TransformedTargetRegressor2(regressor=stubs.RecRegF(), transformer="log"))
        tt.set_params(transformer=name)
    else:
        tt = TransformedTargetRegressor2(regressor=stubs.RecRegF(), transformer=name)
    tt.fit(X, y)
    seen = [f["ys"] for nm, f in stubs.LOG if nm == "fitregf"]
    inner = tt.regressor_.predict(X)
    outer = numpy.asarray(tt.predict(X), dtype=float)
    return dict(id=tid, kind="tt2r", name=name, train_class=classify_map(y, seen[-1]) if seen else "NONE",
                pred_class=classify_map(inner, outer), site=RSITE, sig="name=%s" % name)


def classify(t, v):
    clause = v.fails[0][0] if v.fails else "NotABehaviour"
    det = v.fails[0][2] if v.fails else None
    sig = t.get("sig", "")
    if t["kind"] == "names" and isinstance(det, dict) and "name" in det:
        sig = "name=%s" % det["name"]
    return clause, sig


def run(ctx):
    boot.load()
    SHARED.clear()
    thorough = ctx.tier == "thorough"
    invs = "".join("INVARIANT %s\n" % i for i in ("RoundTrip", "NaNStaysNaN", "PredictsOriginalLabels",
                                                  "ProbaAgreesWithPlain", "ColumnsMatchClasses"))
    base = "SPECIFICATION Spec\nCONSTANTS LabelSets <- %s\n MaxLen = %d\n"
    r = ctx.add_mc("TargetInv", tlc.run("MC_TargetInv", base % ("MCLabelSets", 5 if thorough else 3) +
                                         " DEV_ExpM1PairedWithLog = FALSE\n DEV_ClassesInPermOrder = FALSE\n" + invs,
                                         workers=16, coverage=True, timeout=1500))
    ctx.require_coverage(r, ["Fit"], "TargetInv")
    ctx.add_mc("TargetInv[DEV_ClassesInPermOrder]", tlc.run(
        "MC_TargetInv", base % ("MCSmall", 1) + " DEV_ExpM1PairedWithLog = FALSE\n DEV_ClassesInPermOrder = TRUE\n"
        "INVARIANT ColumnsMatchClasses\n", workers=2), expect_violation="ColumnsMatchClasses")
    ctx.add_mc("TargetInv[DEV_ExpM1PairedWithLog]", tlc.run(
        "MC_TargetInv", base % ("MCSmall", 1) + " DEV_ExpM1PairedWithLog = TRUE\n DEV_ClassesInPermOrder = FALSE\n"
        "INVARIANT RoundTrip\n", workers=2), expect_violation="assumption")

    rng = ctx.rng
    traces = [names_trace(ctx)]
    ctx.case("names")
    from mlinsights.mlmodel import FunctionReciprocalTransformer as F
    for name in sorted(F.available_fcts()):
        ctx.case(("tt2r", name))
        try:
            traces.append(tt2r_trace("tt2r-" + name, name))
            for rep in range(2):
                other = rng.choice(sorted(F.available_fcts()))
                traces.append(tt2r_trace("tt2r-h-%s-%d-%s" % (name, rep, other), other, shared=True))
                traces[-1]["sig"] = "history name=%s" % other
        except Exception as e:
            ctx.violation("CallSucceeds", RSITE, "name=%s" % name, repr(e))
    label_sets = [[0, 1], [0, 1, 2], [2, 5, 7], [1, 3, 4, 9], [3, 8], [0, 2, 4, 6]]
    # label sets with negative labels, written with an offset of 100 (the specification keeps -1 for NaN): {-1, 1},
    # {-1, 1, 2}, {-2, 1, 2, 3}, {-1, 0, 2}, {-5, -3}
    negative = [[99, 101], [99, 101, 102], [98, 101, 102, 103], [99, 100, 102], [95, 97]]
    label_sets += negative
    if thorough:
        label_sets += [[0, 1, 2, 3, 4], [10, 20, 30, 45, 70], [4, 6], [1, 2, 3], [0, 5, 6, 8]]
    k = 0
    for labels in label_sets:
        OFF[0] = 100 if labels in negative else 0
        m = len(labels)
        want = set(itertools.permutations(range(m))) if m <= 4 else None
        seen = set()
        seed = 0
        limit = 400 if m <= 4 else 60
        while seed < limit and (want is None or seen != want):
            seed += 1
            ylen = rng.randint(1, 6)
            y = [rng.choice(labels + [-1]) for _ in range(ylen)]
            try:
                t = perm_trace("perm%d" % k, labels, y, seed, rng)
            except Exception as e:
                ctx.violation("CallSucceeds", PSITE, "m=%d" % m, repr(e), case=dict(labels=labels, y=y, seed=seed))
                continue
            sg = tuple(v for _, v in sorted(t["sigma"]))
            new = sg not in seen
            seen.add(sg)
            if new or seed % 7 == 0:
                k += 1
                traces.append(t)
                ctx.case(("perm", tuple(labels), sg, tuple(y)), nontrivial=sg != tuple(range(m)),
                         sample=dict(kind="perm", labels=labels, sigma=t["sigma"], y=y, ty=t["ty"]))
            if new or seed % 5 == 0:
                n = rng.randint(m, m + 5)
                yy = list(labels) + [rng.choice(labels) for _ in range(n - m)]
                rng.shuffle(yy)
                try:
                    t2 = tt2c_trace("tt2c%d" % k, labels, yy, seed, rng.randrange(n))
                    k += 1
                    traces.append(t2)
                    ctx.case(("tt2c", tuple(yy), tuple(map(tuple, t2["sigma"]))), nontrivial="non-id" in t2["sig"])
                except Exception as e:
                    ctx.violation("CallSucceeds", CSITE, "m=%d" % m, repr(e), case=dict(y=yy, seed=seed))
        if want is not None and seen != want:
            ctx.notes.append("not every permutation of %r was drawn (%d of %d)" % (labels, len(seen), len(want)))
    verdicts, st = tlc.validate("TargetInvTrace", "TargetInvTrace.cfg", traces)
    ctx.states += st["states"]
    ctx.transitions += st["transitions"]
    ctx.verdicts(verdicts, {t["id"]: t for t in traces}, PSITE, classify=classify)
    ctx.extra.setdefault("trace_runs", []).append(dict(spec="TargetInvTrace", traces=len(traces), **st))
    # real learners: the agreement clause with scikit-learn classifiers on well separated integer clusters
    real_learners(ctx, rng, 30 if thorough else 8)
    ctx.exhaustive = False
    ctx.rule = ("MC: every bijection of 4 label sets (incl. sets that are not 0..m-1) x label vectors with NaN. C2S: the "
                "observed name table (callables classified on dyadic points, round trips), PermutationReciprocalTransformer "
                "with random_state swept until every permutation of each label set (m<=4) was drawn (sigma read back from "
                "permutation_), TransformedTargetClassifier2 around a recording equivariant classifier, "
                "TransformedTargetRegressor2 per function name. non-trivial = non-identity permutation.")
    ctx.assumptions += ["closest=True is not exercised (broken by NumPy 2: version drift)",
                        "numeric round trips are accepted within 1e-9 relative (floating-point log/exp)"]


def real_learners(ctx, rng, count):
    from sklearn.linear_model import LogisticRegression
    from sklearn.tree import DecisionTreeClassifier
    from mlinsights.mlmodel import TransformedTargetClassifier2, PermutationReciprocalTransformer as P
    for it in range(count):
        labels = rng.choice([[0, 1, 2], [2, 5, 7], [1, 3, 4, 9]])
        m = len(labels)
        cen = [[8 * j, 5 * ((j * j) % 3)] for j in range(m)]
        X, y = [], []
        for j, lab in enumerate(labels):
            for _ in range(6):
                X.append([cen[j][0] + rng.randint(-1, 1), cen[j][1] + rng.randint(-1, 1)])
                y.append(lab)
        X = numpy.array(X, dtype=float)
        y = numpy.array(y)
        for mk in (lambda: DecisionTreeClassifier(random_state=0), lambda: LogisticRegression(max_iter=500)):
            seed = rng.randint(1, 1000)
            ctx.evaluations += 1
            try:
                tt = TransformedTargetClassifier2(classifier=mk(), transformer=P(random_state=seed)).fit(X, y)
                plain = mk().fit(X, y)
                sig = "real learner %s" % type(plain).__name__
                if not numpy.array_equal(tt.predict(X), plain.predict(X)):
                    ctx.violation("AgreesWithPlainClassifier", CSITE, sig, "predictions differ", case=dict(seed=seed))
                pa, pb = tt.predict_proba(X), plain.predict_proba(X)
                if pa.shape != pb.shape or not numpy.allclose(pa, pb, atol=(5e-3 if "Logistic" in sig else 1e-9)):
                    ctx.violation("ProbaAgreesWithPlain", CSITE, sig, "probabilities differ", case=dict(seed=seed))
                cls = numpy.asarray(tt.classes_)
                if not numpy.array_equal(cls[numpy.argmax(pa, axis=1)], tt.predict(X)):
                    ctx.violation("ColumnsMatchClasses", CSITE, sig,
                                  dict(classes=cls.tolist(), plain=plain.classes_.tolist()), case=dict(seed=seed))
            except Exception as e:
                ctx.violation("CallSucceeds", CSITE, "real learner", repr(e))


if __name__ == "__main__":
    raise SystemExit(main("C13", run))
