"""C14 - traceable vectorizers equal scikit-learn's, n-grams kept as token tuples (spec: NGrams)."""
import numpy
from .. import boot, tlc
from ..core import main

SITE = "mlmodel.sklearn_text"
WORDS = {1: "aa", 2: "aaa", 3: "aab", 4: "bb"}          # string order = integer order, aa is a prefix of aaa / aab
CODE = {v: k for k, v in WORDS.items()}
# with lowercase=False an upper-case word is a token of its own (upper case sorts before lower case)
WORDS8 = {1: "AA", 2: "AAA", 3: "AAB", 4: "BB", 5: "aa", 6: "aaa", 7: "aab", 8: "bb"}
CODE8 = {v: k for k, v in WORDS8.items()}


def enc_gram(g, code=CODE):
    """traceable gram (tuple of str) -> list of ints; anything else (nested tuples, strings) -> [-1]."""
    if isinstance(g, tuple) and all(isinstance(t, str) and t in code for t in g):
        return [code[t] for t in g]
    return [-1]


def dec_str(s, code=CODE):
    parts = s.split(" ")
    return [code[p] for p in parts] if all(p in code for p in parts) else [-1]


def grams_case(doc, stop, minn, maxn):
    from mlinsights.mlmodel import TraceableCountVectorizer
    from sklearn.feature_extraction.text import CountVectorizer
    toks = [WORDS[t] for t in doc]
    st = None if stop is None else frozenset(WORDS[t] for t in stop)
    tv = TraceableCountVectorizer(ngram_range=(minn, maxn))
    sv = CountVectorizer(ngram_range=(minn, maxn))
    got = tv._word_ngrams(list(toks), st)
    sk = sv._word_ngrams(list(toks), st)
    return [enc_gram(g) for g in got], [dec_str(s) for s in sk]


def _sig(stop, minn, maxn):
    return "stop=%s range=(%d,%d)" % (bool(stop), minn, maxn)


SHARED = {}


def corpus_trace(tid, rng):
    from mlinsights.mlmodel import TraceableCountVectorizer, TraceableTfidfVectorizer
    from sklearn.feature_extraction.text import CountVectorizer, TfidfVectorizer
    ndocs = rng.randint(1, 4)
    lowercase = rng.random() < 0.6
    words, code, top = (WORDS, CODE, 4) if lowercase else (WORDS8, CODE8, 8)
    docs = [[rng.randint(1, top) for _ in range(rng.choice([0, 1, 1, 2, 3, 4, 6]))] for _ in range(ndocs)]
    if not any(docs):
        docs[0] = [1, 2]
    minn = rng.randint(1, 3)
    maxn = rng.randint(minn, 3)
    stop = sorted(rng.sample(list(range(1, top + 1)), rng.choice([0, 0, 1, 2])))
    binary = rng.random() < 0.3
    pruned = rng.random() < 0.35
    kw = dict(ngram_range=(minn, maxn), stop_words=[words[t] for t in stop] or None, lowercase=lowercase, binary=binary)
    if pruned:
        kw.update(min_df=rng.choice([1, 2]), max_df=rng.choice([1.0, 0.75]), max_features=rng.choice([None, 3, 5]))
    up = lambda w: w.upper() if lowercase and rng.random() < 0.3 else w
    corpus = [" ".join(up(words[t]) for t in d) + ("." if rng.random() < 0.3 else "") for d in docs]
    t = dict(id=tid, kind="corpus", docs=docs, stop=stop, minn=minn, maxn=maxn, binary=binary, pruned=pruned,
             site=SITE, sig=_sig(stop, minn, maxn) + (" pruned" if pruned else "") + ("" if lowercase else " lowercase=False"), corpus=corpus, options={k: repr(v) for k, v in kw.items()})
    try:
        sv = CountVectorizer(**kw).fit(corpus)
    except ValueError:
        return None          # empty vocabulary / pruning removed everything: scikit-learn refuses, nothing to compare
    if tid % 2:
        tv = TraceableCountVectorizer(**kw).fit(corpus)
    else:
        # one long-lived instance, reconfigured and refitted from trace to trace (options that live in the analyzer
        # included): what an earlier configuration built must not survive
        full = dict(dict(min_df=1, max_df=1.0, max_features=None), **kw)
        tv = SHARED.setdefault("count", TraceableCountVectorizer())
        tv.set_params(**full).fit(corpus)
        t["sig"] += " reconfigured"
    t["tvocab"] = sorted(([dict(gram=enc_gram(g, code), col=int(c)) for g, c in tv.vocabulary_.items()]), key=lambda e: e["col"])
    t["svocab"] = sorted(([dict(gram=dec_str(s, code), col=int(c)) for s, c in sv.vocabulary_.items()]), key=lambda e: e["col"])
    t["tmat"] = [[int(v) for v in row] for row in tv.transform(corpus).toarray()]
    t["smat"] = [[int(v) for v in row] for row in sv.transform(corpus).toarray()]
    if tid % 2:
        a = TraceableTfidfVectorizer(**kw).fit(corpus).transform(corpus).toarray()
    else:
        full = dict(dict(min_df=1, max_df=1.0, max_features=None), **kw)
        a = SHARED.setdefault("tfidf", TraceableTfidfVectorizer()).set_params(**full).fit(corpus).transform(corpus).toarray()
    b = TfidfVectorizer(**kw).fit(corpus).transform(corpus).toarray()
    t["tfidf_equal"] = bool(a.shape == b.shape and numpy.array_equal(a, b))
    return t


def run(ctx):
    boot.load()
    thorough = ctx.tier == "thorough"
    D = 6 if thorough else 4
    invs = "INVARIANT SameGrams\nINVARIANT NoStopWordLeft\nINVARIANT GramsAreFlatAndBounded\n"
    base = "SPECIFICATION Spec\nCONSTANTS Tokens = {1, 2, 3}\n MaxDocLen = %d\n MaxN = 3\n" % D
    r = ctx.add_mc("NGrams", tlc.run("MC_NGrams", base + " DEV_WrapBeforeFilter = FALSE\n" + invs, workers=16, coverage=True, timeout=1500))
    ctx.require_coverage(r, ["FilterStep", "Start", "Loop"], "NGrams")
    ctx.add_mc("NGrams[DEV_WrapBeforeFilter]", tlc.run(
        "MC_NGrams", "SPECIFICATION Spec\nCONSTANTS Tokens = {1, 2}\n MaxDocLen = 2\n MaxN = 2\n DEV_WrapBeforeFilter = TRUE\n"
        "INVARIANT NoStopWordLeft\n", workers=2), expect_violation="NoStopWordLeft")
    # S2C: every (doc, stop set, range) of the model
    res = tlc.must_ok(tlc.run("MC_NGrams", base + " DEV_WrapBeforeFilter = FALSE\nCONSTRAINT Emit\n", workers=1, timeout=1500),
                      "emit NGrams")
    seen = set()
    for case in res.json:
        key = (tuple(case["doc"]), tuple(case["stop"]), case["minn"], case["maxn"])
        if key in seen:
            continue
        seen.add(key)
        doc, stop, minn, maxn = list(key[0]), list(key[1]), key[2], key[3]
        sig = _sig(stop, minn, maxn)
        ctx.case(key, nontrivial=len(doc) >= 2, sample=dict(kind="s2c", doc=doc, stop=stop, range=[minn, maxn], grams=case["grams"]))
        ctx.traces += 1
        want = [list(g) for g in case["grams"]]
        # an empty stop set is replayed both as "no stop words" and as an empty collection
        for st in ([None, []] if not stop else [stop]):
            try:
                got, sk = grams_case(doc, st, minn, maxn)
            except Exception as e:
                ctx.violation("CallSucceeds", SITE + "._word_ngrams", sig, repr(e), case=case)
                continue
            if sk != want:
                raise tlc.TLCError("spec Grams differs from scikit-learn's _word_ngrams on %r: %r vs %r" % (key, sk, want))
            if got != want:
                ctx.violation("SameGrams", SITE + "._word_ngrams", sig, dict(got=got, want=want), case=case)
    # C2S: whole vectorizers on random corpora
    rng = ctx.rng
    traces = []
    for k in range(5000 if thorough else 250):
        try:
            t = corpus_trace(k + 1, rng)
        except Exception as e:
            ctx.violation("CallSucceeds", SITE, "corpus", repr(e))
            continue
        if t is None:
            continue
        ctx.case(("corpus", tuple(map(tuple, t["docs"])), tuple(t["stop"]), t["minn"], t["maxn"], t["binary"], t["pruned"], str(t["options"])),
                 nontrivial=len(t["docs"]) >= 2)
        traces.append(t)
    verdicts, st = tlc.validate("NGramsTrace", "NGramsTrace.cfg", traces)
    ctx.states += st["states"]
    ctx.transitions += st["transitions"]
    ctx.verdicts(verdicts, {t["id"]: t for t in traces}, SITE)
    ctx.extra.setdefault("trace_runs", []).append(dict(spec="NGramsTrace", traces=len(traces), **st))
    ctx.exhaustive = True
    ctx.rule = ("S2C: every (document of <=%d tokens over 3 prefix-related words, stop-word subset, 1<=min_n<=max_n<=3) of the "
                "NGrams state space (%d cases) replayed through NGramsMixin._word_ngrams and scikit-learn's own "
                "_word_ngrams; C2S: random corpora (<=4 documents incl. empty ones, mixed case, punctuation) x ngram_range x "
                "stop_words x binary x min_df/max_df/max_features fitted with the traceable vectorizers and their parents, "
                "validated by NGramsTrace. non-trivial = documents with >= 2 tokens / corpora with >= 2 documents." % (D, len(seen)))
    ctx.assumptions += ["default tokenizer; words are 'aa','aaa','aab','bb' so that string order is the spec's token order",
                        "tf-idf weights are compared for equality with the parent class, not modelled"]


if __name__ == "__main__":
    raise SystemExit(main("C14", run))
