"""C15 - learner-to-transformer wrappers are transparent (spec: Wrappers)."""
import warnings
import numpy
from .. import boot, tlc, stubs
from ..core import main

SITE_L = "sklapi.SkBaseTransformLearner"
SITE_S = "sklapi.SkBaseTransformStacking"
SITE_T = "mlmodel.TransferTransformer"


def data(rng, n, classes=None, base=0):
    X = numpy.array([[base + i + 1, rng.randint(0, 5)] for i in range(n)], dtype=numpy.float64)
    if classes:
        y = numpy.array([rng.choice(classes) for _ in range(n)])
        for k, c in enumerate(classes):
            y[k % n] = c
    else:
        y = numpy.array([float(rng.randint(0, 9)) for _ in range(n)])
    return X, y


def enc_row(v):
    return [int(round(float(x))) if abs(float(x) - round(float(x))) < 1e-9 else -999999 for x in numpy.asarray(v, dtype=float).ravel()]


def wrap_trace(tid, rng, stacking):
    from mlinsights.sklapi import SkBaseTransformLearner, SkBaseTransformStacking
    stub = rng.choice(["reg", "clf", "trans", "utrans"])
    classes = sorted(rng.sample([0, 1, 2, 5, 7], rng.choice([2, 3]))) if stub == "clf" else []
    method = {"reg": "predict", "trans": "transform", "utrans": "transform", "clf": rng.choice(["predict", "predict_proba"])}[stub]
    mk = {"reg": rng.choice([stubs.RecReg, stubs.RecRegFP]), "clf": stubs.RecClf2, "trans": stubs.RecTrans, "utrans": stubs.RecTransU}[stub]
    nm = rng.randint(2, 4) if stacking else 1
    inner = [mk() for _ in range(nm)]
    if stacking:
        w = SkBaseTransformStacking(list(inner), method=method)
    else:
        use_callable = stub == "reg" and rng.random() < 0.3
        w = SkBaseTransformLearner(inner[0], method=(lambda X, m=inner[0]: m.predict(X)) if use_callable else method)
    t = dict(id=tid, kind="wrap", stub="reg" if stub in ("reg", "trans", "utrans") else "clf", method=method, classes=classes, nmembers=nm,
             copy=False, trainable=False, site=SITE_S if stacking else SITE_L, sig="stub=%s method=%s" % (stub, method), ev=[])
    base = 0
    for rep in range(rng.choice([1, 2])):         # fit, transform, refit on other data, transform
        n = rng.randint(len(classes) or 2, 9)
        X, y = data(rng, n, classes, base)
        if stub == "utrans":
            y = None            # an unsupervised member: no target, fit parameters still apply
        base += 50
        del stubs.LOG[:]
        # fit parameters (sample weights) travel to the members like in a direct fit
        sw = numpy.array([float(rng.randint(1, 3)) for _ in range(n)]) if rng.random() < 0.5 else None
        with warnings.catch_warnings():
            warnings.simplefilter("ignore")
            try:
                ft = None
                if rng.random() < 0.4:      # the one-call form (what a Pipeline uses for its inner steps)
                    ft = w.fit_transform(X, y) if sw is None else w.fit_transform(X, y, sample_weight=sw)
                    ret = w
                else:
                    ret = w.fit(X, y) if sw is None else w.fit(X, y, sample_weight=sw)
            except Exception as e:
                t["ev"].append(dict(a="raised", err=repr(e)[:120]))
                return t
        byobj = {}
        for nmv, f in stubs.LOG:
            if nmv == "fit":
                byobj[f["obj"]] = f
        mem = []
        for m in inner:
            f = byobj.get(id(m))
            mem.append(dict(rows=f["rows"], ys=f["ys"], ws=f.get("ws", [])) if f else dict(rows=[], ys=[], ws=[]))
        t["ev"].append(dict(a="fit", rows=[int(v) for v in X[:, 0]], ys=[] if y is None else [int(v) for v in y], ws=[] if sw is None else [int(v) for v in sw],
                            members=mem, returns_self=ret is w, ft_equal=True))
        if ft is not None:
            # fit_transform(X) is fit(X) followed by transform(X)
            again = w.transform(X)
            t["ev"][-1]["ft_equal"] = bool(numpy.asarray(ft).shape == numpy.asarray(again).shape and numpy.array_equal(ft, again))
        P = numpy.array([list(X[rng.randrange(n)]) for _ in range(3)] + [[900 + q, 1.0] for q in range(2)], dtype=numpy.float64)
        out = w.transform(P)
        for q in range(P.shape[0]):
            single = w.transform(P[q:q + 1])
            t["ev"].append(dict(a="transform", x=int(P[q, 0]), out=enc_row(out[q]), two_d=bool(out.ndim == 2 and single.ndim == 2
                                                                                                and enc_row(single[0]) == enc_row(out[q]))))
    return t


def transfer_trace(tid, rng):
    from mlinsights.mlmodel import TransferTransformer
    copy_flag, trainable = rng.random() < 0.5, rng.random() < 0.5
    Xp, yp = data(rng, rng.randint(3, 7), None, 500)
    est = rng.choice([stubs.RecReg, stubs.WarmReg, stubs.WarmReg])()
    est.fit(Xp, yp)
    X, y = data(rng, rng.randint(3, 8))
    t = dict(id=tid, kind="transfer", stub="reg", method="predict", classes=[], nmembers=1, copy=copy_flag, trainable=trainable,
             pre_rows=[int(v) for v in Xp[:, 0]], pre_ys=[int(v) for v in yp], rows=[int(v) for v in X[:, 0]], ys=[int(v) for v in y],
             site=SITE_T, sig="copy=%s trainable=%s" % (copy_flag, trainable), ev=[])
    tt = TransferTransformer(est, method="predict", copy_estimator=copy_flag, trainable=trainable)
    with warnings.catch_warnings():
        warnings.simplefilter("ignore")
        try:
            for rep in range(rng.choice([1, 2])):         # fitting twice on the same data changes nothing more
                tt.fit(X, y)
        except Exception as e:
            t["ev"].append(dict(a="raised", err=repr(e)[:120]))
            return t
    def snapshot():
        t["ev"].append(dict(a="fit", d="D", inner_rows=list(tt.estimator_.rows_), orig_rows=list(est.rows_), same_object=tt.estimator_ is est))
        P = numpy.array([[700 + q, 0.0] for q in range(3)], dtype=numpy.float64)
        out = tt.transform(P)
        oo = est.predict(P)
        for q in range(3):
            t["ev"].append(dict(a="transform", x=int(P[q, 0]), out=enc_row(out[q]), orig_out=enc_row(oo[q])))
    snapshot()
    Xe, ye = data(rng, rng.randint(3, 7), None, 800)
    t.update(e_rows=[int(v) for v in Xe[:, 0]], e_ys=[int(v) for v in ye])
    if rng.random() < 0.5:
        # the caller trains its estimator again, then fits the wrapper again: the wrapper works with the estimator as it is now
        est.fit(Xe, ye)
        t["ev"].append(dict(a="retrain", d="E"))
        with warnings.catch_warnings():
            warnings.simplefilter("ignore")
            try:
                tt.fit(X, y)
            except Exception as e:
                t["ev"].append(dict(a="raised", err=repr(e)[:120]))
                return t
        t["sig"] += " retrained"
        snapshot()
    return t


def real_models(ctx, rng, count):
    """transparency with real scikit-learn models, every method incl. decision_function and a callable"""
    from sklearn.linear_model import LogisticRegression, LinearRegression
    from sklearn.tree import DecisionTreeClassifier
    from sklearn.decomposition import PCA
    from mlinsights.sklapi import SkBaseTransformLearner, SkBaseTransformStacking
    from mlinsights.mlmodel import TransferTransformer
    for it in range(count):
        n = rng.randint(20, 40)
        X = numpy.array([[rng.randint(0, 9), rng.randint(0, 9), rng.randint(0, 3)] for _ in range(n)], dtype=float)
        y = numpy.array([int(a + b > 9) + int(c > 1) for a, b, c in X])
        y[:3] = [0, 1, 2]
        ctx.evaluations += 1
        with warnings.catch_warnings():
            warnings.simplefilter("ignore")
            for mk, meth in ((lambda: LogisticRegression(max_iter=300), "predict_proba"), (lambda: LogisticRegression(max_iter=300), "decision_function"),
                             (lambda: DecisionTreeClassifier(max_depth=3, random_state=0), "predict"), (lambda: PCA(n_components=2), "transform"),
                             (lambda: LinearRegression(), "predict")):
                direct = mk().fit(X, y)
                want = getattr(direct, meth)(X)
                want2 = want if want.ndim == 2 else want[:, None]
                got = SkBaseTransformLearner(mk(), method=meth).fit(X, y).transform(X)
                if got.shape != want2.shape or not numpy.allclose(got, want2, atol=1e-9):
                    ctx.violation("Transparent", SITE_L, "real model %s" % meth, "transform differs from the model's %s" % meth)
                try:
                    tt = TransferTransformer(direct, method=meth).fit(X, y)
                except AssertionError as e:
                    # the library's own equality assertion on the copy is too strict for some estimators (tree objects have
                    # no __eq__): fit refuses; nothing is returned that could differ
                    note = "TransferTransformer(copy_estimator=True) refuses %s: %s" % (type(direct).__name__, str(e)[:60])
                    if note not in ctx.skipped:
                        ctx.skipped.append(note)
                    continue
                if not numpy.allclose(tt.transform(X), want, atol=1e-12):
                    ctx.violation("Transparent", SITE_T, "real model %s" % meth, "transform differs from the wrapped estimator's %s" % meth)
            models = [DecisionTreeClassifier(max_depth=2, random_state=0), LinearRegression(), LogisticRegression(max_iter=300)]
            st = SkBaseTransformStacking(models, method="predict").fit(X, y)
            want = numpy.hstack([m.fit(X, y).predict(X)[:, None] for m in [DecisionTreeClassifier(max_depth=2, random_state=0), LinearRegression(),
                                                                          LogisticRegression(max_iter=300)]])
            got = st.transform(X)
            if got.shape != want.shape or not numpy.allclose(got, want, atol=1e-9):
                ctx.violation("StackIsConcat", SITE_S, "real models, mixed integer / float outputs", "transform is not the column concatenation")
            # members that answer with data frames (set_output(transform="pandas")) next to learners, on a frame whose index is
            # not 0..n-1 (a shuffled / filtered table): still the columns of each member side by side, row by row
            import pandas
            from sklearn.preprocessing import StandardScaler
            idx = list(range(3, 3 + n))
            rng.shuffle(idx)
            F = pandas.DataFrame(X, columns=["a", "b", "c"], index=idx)
            for mks in ((lambda: StandardScaler().set_output(transform="pandas"), LinearRegression),
                        (LinearRegression, lambda: PCA(n_components=2, random_state=0).set_output(transform="pandas"),
                         lambda: DecisionTreeClassifier(max_depth=2, random_state=0))):
                want_parts = []
                try:
                    st3 = SkBaseTransformStacking([mk() for mk in mks], "predict").fit(F, y)
                    got3 = numpy.asarray(st3.transform(F), dtype=float)
                    for mk in mks:
                        mdl = mk().fit(F, y)
                        o = numpy.asarray(mdl.transform(F) if hasattr(mdl, "transform") else mdl.predict(F), dtype=float)
                        want_parts.append(o if o.ndim == 2 else o[:, None])
                    want3 = numpy.hstack(want_parts)
                except Exception as e:           # noqa: BLE001
                    note = "stacking of pandas-output members not exercised: %s" % repr(e)[:80]
                    if note not in ctx.skipped:
                        ctx.skipped.append(note)
                    continue
                ctx.evaluations += 1
                if got3.shape != want3.shape or not numpy.allclose(got3, want3, atol=1e-9, equal_nan=True):
                    ctx.violation("StackIsConcat", SITE_S, "members answering with data frames, shuffled index",
                                  "shape %r, expected %r" % (got3.shape, want3.shape))


def warm_transfer(ctx, rng, count):
    """a trainable copy of an estimator that continues from its fitted state (warm start): training the copy is what
    training a copy of the estimator directly would be"""
    import copy
    from mlinsights.mlmodel import TransferTransformer
    for _ in range(count):
        Xp, yp = data(rng, rng.randint(3, 7), None, 500)
        X, y = data(rng, rng.randint(3, 8))
        est = stubs.CarryReg(shift=float(rng.randint(1, 5))).fit(Xp, yp)
        want = copy.deepcopy(est).fit(X, y).predict(X)
        ctx.evaluations += 1
        with warnings.catch_warnings():
            warnings.simplefilter("ignore")
            try:
                tt = TransferTransformer(est, method="predict", copy_estimator=True, trainable=True).fit(X, y)
                got = numpy.asarray(tt.transform(X), dtype=float).ravel()
            except Exception as e:
                ctx.violation("CallSucceeds", SITE_T, "copy=True trainable=True warm", repr(e)[:200])
                continue
        if got.shape != want.shape or not numpy.allclose(got, want, rtol=0, atol=1e-9):
            ctx.violation("TrainsLikeDirect", SITE_T, "copy=True trainable=True warm",
                          dict(got=got[:3].tolist(), want=want[:3].tolist()))
        if getattr(est, "n_fits_", 0) != 1:
            ctx.violation("OriginalUntouched", SITE_T, "copy=True trainable=True warm", "the caller's estimator was trained again")


def classify(t, v):
    if v.fails:
        return v.fails[0][0], t.get("sig", "")
    return "NotABehaviour", t.get("sig", "")


def run(ctx):
    boot.load()
    thorough = ctx.tier == "thorough"
    r = ctx.add_mc("Wrappers", tlc.run("MC_Wrappers", "SPECIFICATION Spec\nCONSTANTS Datas <- MCDatas\n DEV_CopyShares = FALSE\n"
                                       "INVARIANT Frozen\nINVARIANT OriginalUntouched\nINVARIANT TrainsLikeDirect\nPROPERTY FreshCopy\n", workers=2, coverage=True))
    ctx.add_mc("Wrappers[DEV_CopyShares]", tlc.run("MC_Wrappers", "SPECIFICATION Spec\nCONSTANTS Datas <- MCDatas\n DEV_CopyShares = TRUE\n"
                                                   "INVARIANT OriginalUntouched\n", workers=2), expect_violation="OriginalUntouched")
    rng = ctx.rng
    traces = []
    for k in range(4000 if thorough else 150):
        kind = rng.choice(["learner", "stacking", "transfer"])
        t = transfer_trace(k + 1, rng) if kind == "transfer" else wrap_trace(k + 1, rng, kind == "stacking")
        ctx.case((kind, t["sig"], str(t["ev"])[:300]), sample=dict(kind=kind, sig=t["sig"], ev=t["ev"][:3]))
        traces.append(t)
    warm_transfer(ctx, rng, 40 if thorough else 8)
    verdicts, st = tlc.validate("WrappersTrace", "WrappersTrace.cfg", traces)
    ctx.states += st["states"]
    ctx.transitions += st["transitions"]
    ctx.verdicts(verdicts, {t["id"]: t for t in traces}, SITE_L, classify=classify)
    ctx.extra.setdefault("trace_runs", []).append(dict(spec="WrappersTrace", traces=len(traces), **st))
    real_models(ctx, rng, 25 if thorough else 3)
    ctx.exhaustive = False
    ctx.rule = ("MC: the TransferTransformer machine for every (copy_estimator, trainable) and fit history. C2S: wrappers around "
                "recording stubs (regressor / classifier / transformer; predict, predict_proba, transform, callable), 1-4 members, "
                "fit / transform / refit histories: what every member was trained on and every output row are events; "
                "TransferTransformer around a pre-trained stub: rows seen by the working and by the original estimator after fit, "
                "object identity, outputs of both. Real scikit-learn models cover decision_function and mixed dtypes.")
    ctx.assumptions += ["stub outputs are exact integers, so equality is exact"]


if __name__ == "__main__":
    raise SystemExit(main("C15", run))
