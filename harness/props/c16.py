"""C16 - pipeline introspection and drawing describe the pipeline they are given (spec: PipelineAst)."""
import re
import warnings
import numpy
import pandas
from sklearn.base import BaseEstimator, TransformerMixin, RegressorMixin, ClassifierMixin
from .. import boot, tlc
from ..core import main

SITE_E = "helpers.pipeline.enumerate_pipeline_models"
SITE_D = "helpers.pipeline.alter_pipeline_for_debugging"
SITE_G = "plotting.visualize.pipeline2dot"


class TagT(BaseEstimator, TransformerMixin):
    """keeps the shape, adds its tag: consecutive steps are told apart exactly"""

    def __init__(self, tag=1):
        self.tag = tag

    def fit(self, X, y=None):
        return self

    def transform(self, X):
        return numpy.asarray(X, dtype=float) + self.tag


def _pred_class(base, name="TagP", with_transform=False):
    def fit(self, X, y=None):
        self.classes_ = numpy.array([0, 1])
        return self

    def predict(self, X):
        if numpy.isnan(numpy.asarray(X, dtype=float)).any():
            raise ValueError("stub predictor: NaN in the input")
        s = numpy.asarray(X, dtype=float).sum(axis=1) + self.tag
        return (s.astype(int) % 2) if base is ClassifierMixin else s

    def predict_proba(self, X):
        p = self.predict(X).astype(float)
        return numpy.vstack([1 - p, p]).T

    def init(self, tag=1):
        self.tag = tag
    def transform(self, X):
        return numpy.asarray(X, dtype=float) * 2

    d = dict(__init__=init, fit=fit, predict=predict)
    if base is ClassifierMixin:
        d["predict_proba"] = predict_proba
    if with_transform:          # predictors that are also transformers (KMeans, LinearDiscriminantAnalysis, ...)
        d["transform"] = transform
    return type(name, (BaseEstimator, base), d)


TagPR = _pred_class(RegressorMixin)
TagPC = _pred_class(ClassifierMixin)
TagPRT = _pred_class(RegressorMixin, with_transform=True)
TagPCT = _pred_class(ClassifierMixin, with_transform=True)


def kids(kind, parent, rank, i):
    cs = [c for c in range(1, len(kind) + 1) if parent[c - 1] == i]
    return sorted(cs, key=lambda c: rank[c - 1])


def build(kind, parent, rank, i, width, named, objs, clf):
    """returns (sklearn object or 'passthrough', output width)"""
    from sklearn.pipeline import Pipeline, FeatureUnion
    from sklearn.compose import ColumnTransformer
    k = kind[i - 1]
    if k == "tr":
        o = TagT(tag=i)
        objs[i] = o
        return o, width
    if k == "pred":
        o = {(True, False): TagPC, (False, False): TagPR, (True, True): TagPCT, (False, True): TagPRT}[(bool(clf) and clf != 2, clf in (2, 3))](tag=i) \
            if clf in (2, 3) else (TagPC if clf else TagPR)(tag=i)
        objs[i] = o
        return o, 1
    if k == "pass":
        return "passthrough", width
    cs = kids(kind, parent, rank, i)
    if k == "pipe":
        steps, w = [], width
        for c in cs:
            o, w = build(kind, parent, rank, c, w, named and c == cs[0], objs, clf)
            steps.append(("s%d" % c, o))
        p = Pipeline(steps)
        objs[i] = p
        return p, w
    if k == "union":
        parts, w = [], 0
        for c in cs:
            o, wc = build(kind, parent, rank, c, width, False, objs, clf)
            parts.append(("u%d" % c, o))
            w += wc
        u = FeatureUnion(parts)
        objs[i] = u
        return u, w
    # column transformer
    parts, w, used = [], 0, set()
    names = ["a", "b", "c", "d"]
    for r, c in enumerate(cs):
        cols = [r % width] if width == 1 or (i + r) % 3 == 0 else sorted({r % width, (r + 1) % width})
        used.update(cols)
        o, wc = build(kind, parent, rank, c, len(cols), False, objs, clf)
        parts.append(("c%d" % c, o, [names[j] for j in cols] if named else cols))
        w += wc
    rem = "passthrough" if (i + len(cs)) % 2 == 0 else "drop"
    if rem == "passthrough":
        w += width - len(used)
    ct = ColumnTransformer(parts, remainder=rem)
    objs[i] = ct
    return ct, max(w, 1)


def fitted_objects(pipe):
    """node id -> the object that actually processes the data once the pipeline is fitted (step names carry node ids;
    a fitted ColumnTransformer works with the clones in transformers_)"""
    from sklearn.pipeline import Pipeline, FeatureUnion
    from sklearn.compose import ColumnTransformer
    out = {1: pipe}

    def walk(o):
        if isinstance(o, Pipeline):
            items = o.steps
        elif isinstance(o, FeatureUnion):
            items = o.transformer_list
        elif isinstance(o, ColumnTransformer):
            items = [(n, m) for n, m, _ in getattr(o, "transformers_", o.transformers) if n != "remainder"]
        else:
            return
        for name, m in items:
            if isinstance(m, str) or type(m).__name__ == "FunctionTransformer":
                continue
            out[int(name[1:])] = m
            walk(m)
    walk(pipe)
    return out


def parse_dot(text):
    nodes, edges = [], []
    try:
        lines = [ln.strip() for ln in text.split("\n")]
        assert lines[0].startswith("digraph") and lines[-1] == "}", "not a digraph"
        for ln in lines[1:-1]:
            if not ln:
                continue
            m = re.fullmatch(r"(\w+)\[label=\"(.*?)\",shape=(\w+)(,.*)?\];", ln)
            if m:
                ident, label, shape = m.group(1), m.group(2), m.group(3)
                fields, labels = [], []
                if shape == "record":
                    for part in label.split("|"):
                        fm = re.fullmatch(r"<(\w+)> (.*)", part)
                        assert fm, "record field without a port: %r" % part
                        # { } | < > are reserved in record labels and a field needs a text (graphviz: 'bad label format')
                        assert fm.group(2).strip() and not re.search(r"[{}<>|]", fm.group(2)), "bad record field text: %r" % part
                        fields.append(fm.group(1))
                        labels.append(fm.group(2))
                nodes.append(dict(id=ident, shape=shape, fields=fields, labels=labels, label=label if shape != "record" else ""))
                continue
            m = re.fullmatch(r"([\w]+)(?::(\w+))? -> ([\w]+)(?::(\w+))?;", ln)
            if m:
                edges.append(dict(s=m.group(1), sf=m.group(2) or "", d=m.group(3), df=m.group(4) or ""))
                continue
            if re.fullmatch(r"\w+=[\w.]+;", ln):
                continue
            raise AssertionError("cannot parse line %r" % ln)
        return dict(parsed=True, err="", nodes=nodes, edges=edges)
    except AssertionError as e:
        return dict(parsed=False, err=str(e)[:200], nodes=[], edges=[])


class ArrIds:
    def __init__(self):
        self.seen = []

    def of(self, a):
        a = numpy.asarray(a.to_numpy() if hasattr(a, "to_numpy") else a, dtype=float)
        for k, b in enumerate(self.seen):
            if b.shape == a.shape and numpy.array_equal(a, b):
                return k
        self.seen.append(a.copy())
        return len(self.seen) - 1


def observe(tid, case, variant, width=None):
    from mlinsights.helpers.pipeline import enumerate_pipeline_models, alter_pipeline_for_debugging
    from mlinsights.plotting import pipeline2str, pipeline2dot
    kind, parent, rank = case["kind"], case["parent"], case["rank"]
    schema = ["frame", "array", "names"][variant % 3]
    clf = [True, False, 2, 3][variant % 4]        # classifier, regressor, and both again as predictor + transformer
    named = schema == "frame" and kind[0] in ("colt", "pipe")
    W = width or [3, 1, 3, 2][(variant // 12) % 4]          # number of input columns (a single named column too)
    cols = ["a", "b", "c"][:W]
    Xn = numpy.array([[1.0, 2.0, 3.0], [4.0, 6.0, 5.0], [7.0, 9.0, 8.0], [0.0, 2.0, 1.0]])[:, :W]
    X = pandas.DataFrame(Xn, columns=cols) if schema == "frame" else Xn
    y = numpy.array([0, 1, 0, 1])
    t = dict(id=tid, kind=kind, parent=parent, rank=rank, columns=cols if schema != "array" else ["X0", "X1", "X2"][:W],
             site=SITE_E, sig="schema=%s root=%s cols=%d" % (schema, kind[0], W), has_debug=False, has_dot=False,
             debug=[dict(seen=False, inid=-1, outid=-1, consistent=True) for _ in kind], same_output=True, second_alter_refused=True,
             copy_ok=True, scorers_ok=True, failed_call_recorded=True,
             dot=dict(parsed=True, err="", nodes=[], edges=[]))
    objs, objs2 = {}, {}
    with warnings.catch_warnings():
        warnings.simplefilter("ignore")
        pipe, _ = build(kind, parent, rank, 1, W, named, objs, clf)
        ref, _ = build(kind, parent, rank, 1, W, named, objs2, clf)
        if pipe == "passthrough":
            return None
        method = "predict" if "pred" in kind else "transform"
        pipe.fit(X, y)
        ref.fit(X, y)
        t["enum"] = [dict(coor=list(c), cls=type(m).__name__) for c, m, _ in enumerate_pipeline_models(pipe)]
        t["lines"] = []
        for ln in pipeline2str(pipe).split("\n"):
            body = ln.lstrip(" ")
            t["lines"].append(dict(indent=len(ln) - len(body), cls=body.split("(")[0]))
        # drawing (before the pipeline is altered)
        data = X if schema != "names" else list(cols)
        t["has_dot"] = True
        try:
            t["dot"] = parse_dot(pipeline2dot(pipe, data))
        except Exception as e:
            t["dot"] = dict(parsed=False, err="raised " + repr(e)[:160], nodes=[], edges=[])
        # debugging wrappers
        if hasattr(pipe, method):
            t["has_debug"] = True
            before = getattr(ref, method)(X)
            alter_pipeline_for_debugging(pipe)
            after = getattr(pipe, method)(X)
            t["same_output"] = bool(numpy.asarray(before).shape == numpy.asarray(after).shape and numpy.array_equal(before, after))
            if (variant // 6) % 2:
                # the caller's buffer is refilled in place and pushed through again: the records below are those of the LAST call
                X[:] = Xn[::-1] * 2 + 1
                before, after = getattr(ref, method)(X), getattr(pipe, method)(X)
                t["same_output"] = bool(t["same_output"] and numpy.asarray(before).shape == numpy.asarray(after).shape
                                        and numpy.array_equal(before, after))
            ids = ArrIds()
            for i, o in fitted_objects(pipe).items():
                dbg = getattr(o, "_debug", None)
                d = t["debug"][i - 1]
                if dbg is None:
                    continue
                ms = [m for m in (("predict", "transform") if i == 1 or kind[i - 1] == "pred" else ("transform",)) if m in dbg.inputs]
                if not ms:
                    continue
                m = ms[0]
                d["seen"] = True
                d["inid"], d["outid"] = ids.of(dbg.inputs[m]), ids.of(dbg.outputs[m])
                again = dbg.methods[m](o, dbg.inputs[m])
                d["consistent"] = bool(numpy.array_equal(numpy.asarray(again, dtype=float), numpy.asarray(dbg.outputs[m], dtype=float)))
            try:
                alter_pipeline_for_debugging(pipe)
                t["second_alter_refused"] = False
            except AssertionError:
                t["second_alter_refused"] = True
            # scikit-learn's scorers on the altered pipeline (they find predict / predict_proba through its methods)
            if method == "predict" and clf in (True, 2):
                from sklearn.metrics import get_scorer
                try:
                    for name in ("accuracy", "neg_log_loss"):
                        a_, b_ = get_scorer(name)(pipe, X, y), get_scorer(name)(ref, X, y)
                        if not (a_ == b_ or (a_ != a_ and b_ != b_)):
                            t["scorers_ok"] = False
                except Exception as e:
                    # a scorer that fails on the reference pipeline too says nothing about the wrappers
                    try:
                        get_scorer("accuracy")(ref, X, y), get_scorer("neg_log_loss")(ref, X, y)
                        t["scorers_ok"] = False
                    except Exception:
                        pass
            # a call that fails half way (the final predictor refuses a NaN): the records are those of THAT call
            if method == "predict":
                Xbad = X.copy()
                if schema == "frame":
                    Xbad.iloc[0, 0] = numpy.nan
                else:
                    Xbad[0, 0] = numpy.nan
                try:
                    pipe.predict(Xbad)
                except ValueError:
                    dbg = getattr(pipe, "_debug", None)
                    t["failed_call_recorded"] = bool(dbg is not None and dbg.inputs.get("predict") is Xbad)
                except Exception:
                    pass
            # a deep copy of the altered pipeline, the original trained again on other data afterwards
            import copy
            try:
                had = [o for o in fitted_objects(pipe).values() if getattr(o, "_debug", None) is not None and o._debug.inputs]
                twin = copy.deepcopy(pipe)
                for o in fitted_objects(twin).values():          # the twin starts with empty records
                    if getattr(o, "_debug", None) is not None:
                        o._debug.inputs.clear(), o._debug.outputs.clear()
                Xo = X * 3 + 1 if schema != "frame" else X * 3 + 1
                pipe.fit(Xo, y[::-1])
                got = getattr(twin, method)(X)
                want = getattr(ref, method)(X)
                t["copy_ok"] = bool(numpy.asarray(got).shape == numpy.asarray(want).shape and numpy.array_equal(got, want))
                recorded = [o for o in fitted_objects(twin).values() if getattr(o, "_debug", None) is not None and o._debug.inputs]
                if len(recorded) != len(had):
                    t["copy_ok"] = False
            except Exception as e:
                t["copy_ok"] = False
                t["copy_err"] = repr(e)[:160]
    return t


def classify(t, v):
    clause = v.fails[0][0] if v.fails else "NotABehaviour"
    det = v.fails[0][2] if v.fails else None
    sig = t.get("sig", "")
    if clause == "DotParses" and isinstance(det, dict):
        sig += " :: " + re.sub(r"0x[0-9a-f]+|\d+", "#", str(det.get("err", "")))[:80]
    shape = "/".join(t["kind"])
    return clause, sig


def run(ctx):
    boot.load(need_ext=False)
    thorough = ctx.tier == "thorough"
    consts = (7, 3, 2) if not thorough else (8, 3, 3)
    base = "SPECIFICATION Spec\nCONSTANTS MaxNodes = %d\n MaxDepth = %d\n MaxWidth = %d\n" % consts
    invs = "INVARIANT EnumOnce\nINVARIANT ParentsFirst\nINVARIANT CoordinatesDistinct\nINVARIANT CoordLenIsDepth\nCHECK_DEADLOCK FALSE\n"
    ctx.add_mc("PipelineAst%s" % (consts,), tlc.run("MC_PipelineAst", base + invs, workers=16, coverage=True, timeout=2400, heap="8g"))
    ebase = "SPECIFICATION Spec\nCONSTANTS MaxNodes = %d\n MaxDepth = 3\n MaxWidth = 2\n" % (7 if thorough else 6)
    res = tlc.must_ok(tlc.run("MC_PipelineAst", ebase + "CONSTRAINT Emit\nCHECK_DEADLOCK FALSE\n", workers=1, timeout=2400, heap="6g"), "emit PipelineAst")
    seen = set()
    traces = []
    stride = 1 if thorough else 3
    for case in res.json:
        key = (tuple(case["kind"]), tuple(case["parent"]), tuple(case["rank"]))
        if key in seen:
            continue
        seen.add(key)
        import zlib
        hk = zlib.crc32(repr(key).encode())
        if (hk // 7 + ctx.seed) % stride:
            continue
        variant = hk % 48
        todo = [(variant, None)]
        if "union" in case["kind"] or "colt" in case["kind"]:
            # unions / column transformers fed by ONE (named) column, under every kind of schema in the thorough tier
            todo += [(variant + 1 + j, 1) for j in range(3 if thorough else 1)]
        for variant, width in todo:
            try:
                t = observe(len(traces) + 1, case, variant, width)
            except Exception as e:
                import traceback
                tb = traceback.extract_tb(e.__traceback__)
                lib = [f for f in tb if "/mlinsights/" in f.filename]
                if lib:
                    ctx.violation("CallSucceeds", lib[-1].name, type(e).__name__, repr(e)[:200], case=case)
                else:
                    ctx.skipped.append("AST %s not realisable as a scikit-learn pipeline: %s" % ("/".join(case["kind"]), repr(e)[:80]))
                continue
            if t is None:
                continue
            ctx.case(key + (variant, width), nontrivial=len(case["kind"]) >= 3,
                     sample=dict(kind="s2c", ast=case["kind"], parent=case["parent"], enum=t["enum"][:4]))
            traces.append(t)
    verdicts, st = tlc.validate("PipelineTrace", "PipelineTrace.cfg", traces, timeout=3000, heap="6g")
    ctx.states += st["states"]
    ctx.transitions += st["transitions"]
    byid = {t["id"]: t for t in traces}
    for tid_, v in verdicts.items():
        ctx.traces += 1
        if v.ok:
            continue
        t = byid[tid_]
        if not v.fails:
            ctx.violation("NotABehaviour", SITE_E, t["sig"], v.describe(), case=t)
        done = set()
        for clause, l_, det in v.fails:
            c2, sig = classify(t, type("V", (), dict(fails=[(clause, l_, det)]))())
            if (c2, sig) in done:
                continue
            done.add((c2, sig))
            site = SITE_G if clause in ("DotParses", "EdgeEndpointsDeclared", "NodeIdsUnique", "Acyclic", "EveryStepDrawn",
                                        "EveryInputColumnDrawn", "OutputsReachableFromInputs") else (
                SITE_D if clause.startswith("Debug") or clause == "AlterTwiceRefused" else SITE_E)
            ctx.violation(c2, site, sig + " ast=" + "/".join(t["kind"]), str(det)[:500], case=dict(kind=t["kind"], parent=t["parent"], rank=t["rank"]))
    ctx.extra.setdefault("trace_runs", []).append(dict(spec="PipelineTrace", traces=len(traces), **st))
    ctx.exhaustive = thorough
    ctx.rule = ("MC: every AST of <=%d nodes, depth<=%d, width<=%d over Pipeline / FeatureUnion / ColumnTransformer / transformer / final "
                "predictor / 'passthrough'. S2C: 1/%d of the complete ASTs (<=%d nodes) realised as real scikit-learn pipelines of "
                "tagged stub steps over a DataFrame / ndarray / list of names (named or integer columns, remainder passthrough or "
                "drop, classifier or regressor at the end): enumeration, text, debugging records and the parsed DOT graph are "
                "validated by PipelineTrace. non-trivial = >= 3 nodes." % (consts + (stride, 7 if thorough else 6)))
    ctx.assumptions += ["DataFrameMapper / azureml branches need packages that are not installed",
                        "leaf steps are tagged stubs (shape preserving, exact), so chaining is observable exactly"]


if __name__ == "__main__":
    raise SystemExit(main("C16", run))
