"""C17 - IntervalRegressor bootstraps over the whole training set, aggregates exactly (spec: Bootstrap)."""
import numpy
from .. import boot, tlc, stubs
from ..core import main

SITE = "mlmodel.IntervalRegressor"
ALPHAS = [(1, 4), (1, 2), (3, 4), (1, 1), (3, 2), (2, 1)]


class HalfReg(stubs.RecReg):
    """RecReg + 1/2: individual predictions are not integers, so a result container of the query's dtype shows.
    Like a warm-started model it remembers how often THIS object was fitted (each fit after the first shifts its
    predictions by 1000): the prototype handed to IntervalRegressor is already fitted once, its clones are not."""

    def fit(self, X, y, sample_weight=None):
        self.n_fits_ = getattr(self, "n_fits_", 0) + 1
        return stubs.RecReg.fit(self, X, y, sample_weight)

    def predict(self, X):
        # it also memoises its last answer and hands out the SAME array again for the same query (the array belongs to
        # the regressor: whoever sums predictions must not do it in place)
        X = numpy.asarray(X)
        key = (X.tobytes(), X.dtype.str, X.shape, self.n_fits_)
        memo = getattr(self, "_memo", None)
        if memo is None or memo[0] != key:
            self._memo = memo = (key, stubs.RecReg.predict(self, X) + 0.5 + 1000.0 * (self.n_fits_ - 1))
        return memo[1]


def one_trace(tid, n, m, a, b, weighted, n_jobs, seed, probes):
    from mlinsights.mlmodel import IntervalRegressor
    y = [10 + 3 * i + (i * i) % 5 for i in range(n)]
    w = [(i + 1) % 3 for i in range(n)]          # weights 1, 2, 0, 1, 2, 0, ...: rows of weight 0 are rows too
    X = numpy.array([[i, (7 * i) % 5] for i in range(n)], dtype=numpy.float64)
    ya = numpy.array(y, dtype=numpy.float64)
    wa = numpy.array(w, dtype=numpy.float64) if weighted else None
    X0, y0 = X.copy(), ya.copy()
    ev = []
    orig = numpy.random.randint

    def rec(low, high=None, size=None, *args, **kw):
        out = orig(low, high, size, *args, **kw)
        ev.append(dict(a="draw", low=int(low), high=int(high) if high is not None else -1,
                       size=int(size) if size is not None else -1, idx=[int(v) for v in numpy.asarray(out).ravel()]))
        return out

    proto = HalfReg()
    if (n + m) % 2:
        proto.fit(X[:1] + 500, ya[:1])          # the caller's prototype was used before
    del stubs.LOG[:]
    model = IntervalRegressor(proto, n_estimators=m, alpha=a / b, n_jobs=n_jobs)
    numpy.random.seed(seed)
    numpy.random.randint = rec
    err = None
    try:
        ret = model.fit(X, ya, wa)
    except Exception as e:
        err = repr(e)[:100]
    finally:
        numpy.random.randint = orig
    # merge the two logs: draws were appended to ev in call order, fits to stubs.LOG; a fit follows its draw
    logged = [f for nm, f in stubs.LOG if nm == "fit"]
    if err is None:
        # under n_jobs > 1 the fits complete in any order: present them in the order of estimators_ (identity of
        # the fitted stub objects), which is the order predict_all uses; unknown objects keep their log order
        pos = {id(est): j for j, est in enumerate(model.estimators_)}
        logged.sort(key=lambda f: pos.get(f["obj"], len(pos)))
    fits = [dict(a="fit", rows=f["rows"], ys=f["ys"], ws=f["ws"]) for f in logged]
    ev = ev + fits
    t = dict(id=tid, n=n, m=m, a=a, b=b, weighted=weighted, y=y, w=w, ev=ev, site=SITE,
             sig="n=%s alpha=%d/%d w=%s n_jobs=%s" % ("1" if n == 1 else ">1", a, b, weighted, n_jobs))
    if err is not None:
        ev.append(dict(a="raised", err=err))
        return t
    ev.append(dict(a="fitted", m=len(model.estimators_)))
    t["returns_self"] = ret is model
    t["untouched"] = bool(numpy.array_equal(X, X0) and numpy.array_equal(ya, y0))
    raw = []
    for x, dt in zip(probes, (numpy.float64, numpy.int64, numpy.float32, numpy.int32)):
        Xq = numpy.array([[x, 0]], dtype=dt)        # the query's dtype is the caller's business
        # the caller keeps every result while it goes on querying: they are read only after the last call
        raw.append((x, model.predict_all(Xq), model.predict(Xq), model.predict_sorted(Xq)))
    # the hyper-parameter is changed without fitting again: the fitted models are still the m models of the last fit and
    # predict is still their mean
    model.set_params(n_estimators=m + 2)
    Xq = numpy.array([[7, 0]], dtype=numpy.float64)
    raw.append((7, model.predict_all(Xq), model.predict(Xq), model.predict_sorted(Xq)))
    model.set_params(n_estimators=m)
    ok = lambda v: abs(v - round(v)) < 1e-6
    for x, al, pm, ps in raw:
        al, pm, ps = al[0] - 0.5, pm[0] * m - 0.5 * m, ps[0] - 0.5
        ev.append(dict(a="predict", x=x, all=[int(round(v)) if ok(v) else -999999 for v in al],
                       mean_m=int(round(pm)) if ok(pm) else -999999,
                       sorted=[int(round(v)) if ok(v) else -999999 for v in ps]))
    return t


def classify(t, v):
    clause = v.fails[0][0] if v.fails else "NotABehaviour"
    return clause, t.get("sig", "")


def run(ctx):
    boot.load()
    thorough = ctx.tier == "thorough"
    invs = "".join("INVARIANT %s\n" % i for i in ("FitSucceeds", "EligibleAll", "SizeExact", "InRange", "MinLeMeanLeMax"))
    N, M = 3, 2
    for (nn, mm) in ([(3, 2), (4, 1), (5, 1)] if thorough else [(3, 2)]):
        r = ctx.add_mc("Bootstrap(%d,%d)" % (nn, mm), tlc.run(
            "MC_Bootstrap", "SPECIFICATION Spec\nCONSTANTS MaxN = %d\n MaxM = %d\n Alphas <- MCAlphas\n Probes <- MCProbes\n"
            " DEV_LastRowExcluded = FALSE\n%s" % (nn, mm, invs), workers=16, coverage=True, timeout=2400, heap="8g"))
        ctx.require_coverage(r, ["Draw", "Fitted"], "Bootstrap")
    ctx.add_mc("Bootstrap[DEV_LastRowExcluded]", tlc.run(
        "MC_Bootstrap", "SPECIFICATION Spec\nCONSTANTS MaxN = 2\n MaxM = 1\n Alphas <- MCAlphaOne\n Probes <- MCProbes\n"
        " DEV_LastRowExcluded = TRUE\nINVARIANT FitSucceeds\nINVARIANT EligibleAll\n", workers=2), expect_violation="FitSucceeds")
    rng = ctx.rng
    traces = []
    k = 0
    # systematic small cases first (every n <= 6, every alpha, weighted or not), then random larger ones
    plan = [(n, m, a, b, wt, None) for n in range(1, 7) for (a, b) in ALPHAS for m in (1, 3) for wt in (False, True)
            if (2 * n * a + b) // (2 * b) >= 1]
    for _ in range(400 if thorough else 60):
        a, b = rng.choice(ALPHAS)
        n = rng.randint(1, 30)
        if (2 * n * a + b) // (2 * b) < 1:
            continue
        plan.append((n, rng.randint(1, 12), a, b, rng.random() < 0.5, rng.choice([None, None, 1, 2, 4])))
    for (n, m, a, b, wt, nj) in plan:
        k += 1
        seed = rng.randint(0, 10 ** 6)
        ctx.case((n, m, a, b, wt, nj, seed), nontrivial=n >= 2,
                 sample=dict(kind="c2s", n=n, m=m, alpha="%d/%d" % (a, b), weighted=wt, n_jobs=nj))
        t = one_trace(k, n, m, a, b, wt, nj, seed, [0, 3, 11])
        if t.get("returns_self") is False:
            ctx.violation("FitReturnsSelf", SITE, t["sig"], "fit did not return self")
        if t.get("untouched") is False:
            ctx.violation("InputUntouched", SITE, t["sig"], "X or y modified")
        traces.append(t)
    verdicts, st = tlc.validate("BootstrapTrace", "BootstrapTrace.cfg", traces)
    ctx.states += st["states"]
    ctx.transitions += st["transitions"]
    ctx.verdicts(verdicts, {t["id"]: t for t in traces}, SITE, classify=classify)
    ctx.extra.setdefault("trace_runs", []).append(dict(spec="BootstrapTrace", traces=len(traces), **st))
    # second line of defence, independent of how indices are drawn: on tiny training sets with many estimators the
    # union of the rows seen must be all rows (miss probability < 1e-18 for a correct implementation)
    from mlinsights.mlmodel import IntervalRegressor
    for n in (2, 3, 4, 5, 6, 7, 8):
        del stubs.LOG[:]
        X = numpy.array([[i, 0] for i in range(n)], dtype=numpy.float64)
        numpy.random.seed(ctx.seed + n)
        try:
            IntervalRegressor(stubs.RecReg(), n_estimators=64, alpha=1.0).fit(X, numpy.arange(n, dtype=float))
            seen = set(r for nm, f in stubs.LOG if nm == "fit" for r in f["rows"])
            ctx.evaluations += 1
            if seen != set(range(n)):
                ctx.violation("EligibleAll", SITE, "n=>1 alpha=1/1 w=False n_jobs=None",
                              dict(n=n, rows_ever_drawn=sorted(seen)), case=dict(n=n, n_estimators=64))
        except Exception as e:
            ctx.violation("FitSucceeds", SITE, "n=>1 alpha=1/1 w=False n_jobs=None", repr(e))
    ctx.exhaustive = False
    ctx.rule = ("MC: every (n<=%d, m<=%d, alpha in {1/4,1/2,1,3/2}) and every index draw. C2S: a systematic grid "
                "(n<=6 x 6 alphas x m in {1,3} x weights) plus seeded random configurations (n<=30, m<=12, n_jobs in "
                "{None,1,2,4}) with numpy.random.randint wrapped and a recording base regressor; every draw/fit/predict is "
                "an event validated by BootstrapTrace. distinct = distinct configurations+seed; non-trivial = n >= 2." % (N, M))
    ctx.assumptions += ["alpha is dyadic so n*alpha is exact; 'round' is the code's int(x + 0.5) (half up)",
                        "coverage check on n=2..8 with 64 estimators (64 n draws) has false-alarm probability < 1e-18"]


if __name__ == "__main__":
    raise SystemExit(main("C17", run))
