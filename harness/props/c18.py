"""C18 - correlation and comparable-score metrics are well defined (spec: Metrics)."""
import numpy
import pandas
from sklearn.base import BaseEstimator, RegressorMixin
from sklearn.linear_model import LinearRegression
from .. import boot, tlc
from ..core import main

CSITE = "metrics.non_linear_correlations"
DSITE = "metrics.comparable_metric"
SCALE = 1000000


class FirstFitModel(BaseEstimator, RegressorMixin):
    """a linear model that, like a warm-started ensemble asked for no additional member, learns at its FIRST fit only:
    further fits of the same object change nothing.  Every clone learns the identity; an object reused across pairs
    keeps answering with what it learnt first."""

    def fit(self, X, y):
        if not hasattr(self, "m_"):
            self.m_ = LinearRegression().fit(X, y)
        return self

    def predict(self, X):
        return self.m_.predict(X)


class ConstModel(BaseEstimator, RegressorMixin):
    def fit(self, X, y):
        self.c_ = float(numpy.mean(y))
        return self

    def predict(self, X):
        return numpy.full((X.shape[0],), self.c_)


def corr_trace(tid, rng, seed, d, n, draws, frame, minmax, base, identity, const_col, collinear, as_int=False, flag_col=None):
    from mlinsights.metrics import correlations as C
    data = numpy.array([[rng.randint(-5, 5) for _ in range(d)] for _ in range(n)], dtype=float)
    if const_col is not None:
        data[:, const_col] = 3.0
    if collinear and d >= 2:
        data[:, d - 1] = 2 * data[:, 0] + 1
    if flag_col is not None:
        # a rare indicator: constant on the test half of some draws although it can be learnt from the training half
        data[:, flag_col] = 0.0
        for r in rng.sample(range(n), 2):
            data[r, flag_col] = 1.0
    labels = ["L%d" % c for c in range(d)]
    # the values are integers: the table may come with an integer dtype (the other container keeps float64)
    typed = data.astype(numpy.int64) if as_int else data.copy()
    arg = pandas.DataFrame(typed, columns=labels) if frame else typed
    snap = arg.copy()
    splits, states = [], []
    orig = C.train_test_split

    def rec(*a, **kw):
        states.append(numpy.random.get_state())
        out = orig(*a, **kw)
        splits.append(out)
        return out

    C.train_test_split = rec
    numpy.random.seed(seed)
    try:
        res = C.non_linear_correlations(arg, base, draws=draws, minmax=minmax)
        main_splits, main_states = list(splits), list(states)
        # The value of one draw is whatever the code computes for it (the formula is not part of the property): it is
        # read off the code itself, by running ONE draw from the generator state recorded at the start of draw k.  That
        # is only an observation of draw k if the single run splits the table exactly as draw k did - checked below;
        # otherwise (another way of drawing) the accumulation clauses are not evaluated for this trace.
        per_draw, observable = [], len(main_splits) == draws
        for k in range(draws if observable else 0):
            del splits[:], states[:]
            numpy.random.set_state(main_states[k])
            rk = numpy.asarray(C.non_linear_correlations(arg, base, draws=1, minmax=False), dtype=float)
            if len(splits) != 1 or not all(numpy.array_equal(a, b) for a, b in zip(splits[0], main_splits[k])):
                observable = False
                break
            per_draw.append(rk)
    finally:
        C.train_test_split = orig
    splits = main_splits
    mean, mini, maxi = (res if minmax else (res, None, None))
    ev = []
    # a model can learn the identity on variable i only from a training half where i takes two values
    learnable = [bool(all(numpy.ptp(splits[k][0][:, i]) > 0 for k in range(len(splits)))) for i in range(d)]
    if observable:
        for k in range(draws):
            for i in range(d):
                for j in range(d):
                    co = per_draw[k][i, j]
                    ev.append(dict(a="acc", k=k, i=i, j=j, co=int(round(co * SCALE)) if numpy.isfinite(co) else -SCALE))
    enc = lambda M: [[int(round(float(v) * SCALE)) if numpy.isfinite(float(v)) else -SCALE for v in row] for row in numpy.asarray(M, dtype=float)]
    M = numpy.asarray(mean, dtype=float)
    # the same call on the other container type, same seed
    other = data.copy() if frame else pandas.DataFrame(data.copy(), columns=labels)
    numpy.random.seed(seed)
    res2 = C.non_linear_correlations(other, base, draws=draws, minmax=minmax)
    mean2 = res2[0] if minmax else res2
    # rows whose predictor is constant on a training half are decided by rounding noise (a regression on a column that
    # is constant up to the last ulp): only the rows of learnable predictors are compared between the two containers
    rows_ok = [i for i in range(d) if all(numpy.ptp(splits[k][0][:, i]) > 0 for k in range(len(splits)))] if splits else list(range(d))
    M2 = numpy.asarray(mean2, dtype=float)
    same = bool(M2.shape == M.shape and numpy.allclose(M2[rows_ok], M[rows_ok], rtol=0, atol=1e-6, equal_nan=True))
    kept = True
    if frame:
        kept = bool(list(mean.columns) == labels and list(mean.index) == labels)
    untouched = bool(arg.equals(snap)) if frame else bool(numpy.array_equal(arg, snap))
    ev.append(dict(a="result", rows=int(M.shape[0]), cols=int(M.shape[1]) if M.ndim == 2 else -1, mean=enc(M),
                   mini=enc(mini) if minmax else enc(M), maxi=enc(maxi) if minmax else enc(M),
                   labels_kept=kept, input_untouched=untouched, frame_eq_array=same, learnable=learnable))
    return dict(id=tid, kind="corr", d=d, draws=draws, minmax=minmax, identity_model=identity, observable=observable, ev=ev, site=CSITE,
                sig="frame=%s minmax=%s const=%s collinear=%s%s%s" % (frame, minmax, const_col is not None, collinear, " int" if as_int else "",
                                                                     " flag" if flag_col is not None else ""),
                tr="None", inv="None", outcome=[], r2_equal=True)


def dispatch_trace(tid, trn, invn, rng):
    from mlinsights.metrics.scoring_metrics import comparable_metric, r2_score_comparable
    from sklearn.metrics import r2_score
    F = lambda x: x * 2
    G = lambda x: x * 4
    table = {"None": None, "log": "log", "exp": "exp", "F": F, "G": G, "bad": 3}
    fun = {"id": lambda x: x, "log": numpy.log, "exp": numpy.exp, "F": F, "G": G}
    # positive targets over the whole range of magnitudes (2^-50 .. 2^6)
    y = numpy.array([0.5, 1.0, 2.0, 4.0, 1.5, 2.0 ** -50]) * rng.choice([1, 2])
    p = numpy.array([1.0, 2.0 ** -40, 2.0, 3.0, 64.0, 0.5])
    got = {}

    def metric(a, b, **kw):
        got["a"], got["b"] = numpy.asarray(a).copy(), numpy.asarray(b).copy()
        return 0.0

    def which(v, ref):
        for name, f in fun.items():
            if v.shape == ref.shape and numpy.array_equal(v, f(ref)):
                return name
        return "?"
    if tid % 2:
        # the caller's buffers held other values in an earlier call (a fold buffer refilled in place)
        y0, p0 = y.copy(), p.copy()
        y *= 3.0
        p += 1.0
        try:
            comparable_metric(metric, y, p, tr=table[trn], inv_tr=table[invn])
        except (TypeError, ValueError):
            pass
        y[:] = y0
        p[:] = p0
        got.clear()
    try:
        comparable_metric(metric, y, p, tr=table[trn], inv_tr=table[invn])
        outcome = ["call", which(got["a"], y), which(got["b"], p)]
    except TypeError:
        outcome = ["TypeError"]
    except ValueError:
        outcome = ["ValueError"]
    r2_equal = True
    if outcome[0] == "call":
        a = r2_score_comparable(y, p, tr=table[trn], inv_tr=table[invn])
        b = r2_score(fun["id" if trn == "None" else trn](y), fun["id" if invn == "None" else invn](p))
        w = numpy.array([1, 2, 1, 3, 1, 2.0])
        a2 = r2_score_comparable(y, p, tr=table[trn], inv_tr=table[invn], sample_weight=w)
        b2 = r2_score(fun["id" if trn == "None" else trn](y), fun["id" if invn == "None" else invn](p), sample_weight=w)
        # multi-output targets: the same identity column by column (r2_score's default average)
        y2, p2 = numpy.column_stack([y, y[::-1]]), numpy.column_stack([p, p[::-1] * 2])
        a3 = r2_score_comparable(y2, p2, tr=table[trn], inv_tr=table[invn])
        b3 = r2_score(fun["id" if trn == "None" else trn](y2), fun["id" if invn == "None" else invn](p2))
        # a constant (transformed) target: whatever r2_score answers there, the comparable score is the same
        yc = numpy.full(y.shape, float(y[1]))
        a4 = r2_score_comparable(yc, p, tr=table[trn], inv_tr=table[invn])
        b4 = r2_score(fun["id" if trn == "None" else trn](yc), fun["id" if invn == "None" else invn](p))
        same = lambda u, v: bool(u == v or (u != u and v != v))
        r2_equal = bool(a == b and a2 == b2 and a3 == b3 and same(a4, b4))
    return dict(id=tid, kind="dispatch", d=1, draws=1, minmax=False, identity_model=False, observable=False, ev=[], site=DSITE,
                sig="tr=%s inv_tr=%s" % (trn, invn), tr=trn, inv=invn, outcome=outcome, r2_equal=r2_equal)


def run(ctx):
    boot.load(need_ext=False)
    thorough = ctx.tier == "thorough"
    invs = "INVARIANT Range\nINVARIANT MinMeanMax\nINVARIANT MinMaxInRange\nINVARIANT SingleDrawCollapses\n"
    r = ctx.add_mc("Metrics accumulators", tlc.run(
        "Metrics", "SPECIFICATION Spec\nCONSTANTS D = 2\n Draws = %d\n Scale = 2\n DEV_MinMaxFromZero = FALSE\n%s" % (4 if thorough else 3, invs),
        workers=16, coverage=True, timeout=1200))
    ctx.require_coverage(r, ["Acc"], "Metrics")
    ctx.add_mc("Metrics[DEV_MinMaxFromZero]", tlc.run(
        "Metrics", "SPECIFICATION Spec\nCONSTANTS D = 1\n Draws = 1\n Scale = 2\n DEV_MinMaxFromZero = TRUE\nINVARIANT SingleDrawCollapses\n",
        workers=2), expect_violation="SingleDrawCollapses")
    rng = ctx.rng
    groups = {}
    tid = 0
    shapes = [(2, 1), (2, 3), (3, 2), (4, 5)] if not thorough else [(2, 1), (2, 2), (2, 3), (3, 2), (3, 5), (4, 3), (5, 2)]
    for (d, draws) in shapes:
        for rep in range(60 if thorough else 5):
            tid += 1
            frame = rng.random() < 0.5
            minmax = rng.random() < 0.7
            identity = rng.random() < 0.5
            base = rng.choice([LinearRegression(), LinearRegression(), FirstFitModel()]) if identity else rng.choice([ConstModel(), LinearRegression(fit_intercept=False)])
            const_col = rng.randrange(d) if rng.random() < 0.3 else None
            collinear = rng.random() < 0.3
            seed = rng.randint(0, 10 ** 6)
            n = rng.randint(6, 24)
            ctx.case(("corr", d, draws, frame, minmax, identity, const_col, collinear, seed, n), nontrivial=draws >= 2)
            try:
                t = corr_trace(tid, rng, seed, d, n, draws, frame, minmax, base, identity, const_col, collinear, as_int=rng.random() < 0.3)
            except Exception as e:
                ctx.violation("CallSucceeds", CSITE, "frame=%s const=%s" % (frame, const_col is not None), repr(e))
                continue
            groups.setdefault((d, draws), []).append(t)
            if len(ctx.samples) < 2:
                ctx.samples.append(dict(kind="corr", d=d, draws=draws, ev=t["ev"][:3] + t["ev"][-1:]))
    for (d, draws) in [(2, 3), (3, 2)]:
        for rep in range(40 if thorough else 8):
            tid += 1
            seed, n, frame = rng.randint(0, 10 ** 6), rng.randint(12, 30), rng.random() < 0.5
            base = rng.choice([LinearRegression(), LinearRegression(fit_intercept=False)])
            ctx.case(("corr-flag", d, draws, frame, seed, n), nontrivial=True)
            try:
                t = corr_trace(tid, rng, seed, d, n, draws, frame, True, base, True, None, False, flag_col=rng.randrange(d))
            except Exception as e:
                ctx.violation("CallSucceeds", CSITE, "frame=%s flag" % frame, repr(e))
                continue
            groups.setdefault((d, draws), []).append(t)
    disp = []
    for trn in ("None", "log", "exp", "F", "G", "bad"):
        for invn in ("None", "log", "exp", "F", "G", "bad"):
            tid += 1
            ctx.case(("dispatch", trn, invn))
            try:
                disp.append(dispatch_trace(tid, trn, invn, rng))
            except Exception as e:
                ctx.violation("Dispatch", DSITE, "tr=%s inv_tr=%s" % (trn, invn), repr(e))
    groups.setdefault((2, 1), []).extend(disp)
    for (d, draws), trs in sorted(groups.items()):
        cfg = ("SPECIFICATION TSpec\nCONSTANTS D = %d\n Draws = %d\n Scale = %d\n DEV_MinMaxFromZero = FALSE\nCHECK_DEADLOCK FALSE\n"
               % (d, draws, SCALE))
        verdicts, st = tlc.validate("MetricsTrace", cfg, trs)
        ctx.states += st["states"]
        ctx.transitions += st["transitions"]
        ctx.verdicts(verdicts, {t["id"]: t for t in trs}, CSITE)
        ctx.extra.setdefault("trace_runs", []).append(dict(spec="MetricsTrace", d=d, draws=draws, traces=len(trs), **st))
    ctx.exhaustive = False
    ctx.rule = ("MC: all accumulation histories for 2x2 cells, 3-4 draws, 3 values; the dispatch table is an ASSUME of the "
                "module. C2S: seeded tables (2-5 columns incl. constant and collinear columns, DataFrame and array) x models "
                "(identity-capable LinearRegression, constant model, no-intercept) x draws: train_test_split wrapped to capture "
                "each draw and the generator state before it, the value of every (draw, i, j) read off a one-draw run of "
                "the code from that state (so the formula of a draw is not demanded), one acc event each, validated in "
                "order plus the returned matrices; all 36 (tr, inv_tr) combinations of comparable_metric with a recording metric and "
                "r2_score_comparable against r2_score. non-trivial = >= 2 draws.")
    ctx.assumptions += ["per-draw values are the code's own (one-draw run from the recorded generator state, accepted only if it "
                        "splits the table exactly like that draw), scaled to 1e-6 units; the specification decides accumulation, "
                        "extremes, range and ordering",
                        "the numeric value of a correlation is not predicted by the model (DESIGN 5)"]


if __name__ == "__main__":
    raise SystemExit(main("C18", run))
