"""C19 - CategoriesToIntegers encodes each category by its own indicator and nothing else (spec: CatEncode)."""
import numpy
import pandas
from .. import boot, tlc
from ..core import main

SITE = "mlmodel.CategoriesToIntegers"


# category code -> value.  kind "str": 'v1'..'v9' (string order = code order); kind "int": integers whose natural order
# is the code order but whose str() order is not (2 < 10 < 30 < 100 ...), kept in an object column
INTS = [None, 0, 10, 30, 100, 200, 1000, 3000, 10000, 20000]      # 0: a category that is falsy
KIND = ["str"]


def _val(v, alt):
    if v == 0:
        return None if alt else numpy.nan
    return "v%d" % v if KIND[0] == "str" else INTS[v]


def _name(c, v):
    return "c%d=v%d" % (c, v) if KIND[0] == "str" else "c%d=%d" % (c, INTS[v])


def make_frame(rows, ncat, nnum, rng_idx, numvals=None):
    """rows: list of rows of category codes.  Returns an object-dtype DataFrame with numeric columns interleaved."""
    data = {}
    m = len(rows)
    order = []
    for c in range(ncat):
        if c < nnum:
            if numvals is None and (m + c) % 2 == 0:
                # an identifier column: 64-bit integers beyond 2^53 (they have no exact float64 image)
                data["n%d" % (c + 1)] = pandas.Series([2 ** 53 + 1 + 10 * (c + 1) + 2 * r for r in range(m)], dtype=numpy.int64)
            else:
                data["n%d" % (c + 1)] = pandas.Series(
                    [float((numvals or [])[r][c]) if numvals else float(10 * (c + 1) + r) for r in range(m)], dtype=float)
            order.append("n%d" % (c + 1))
        data["c%d" % (c + 1)] = pandas.Series([_val(rows[r][c], (r + c) % 2) for r in range(m)], dtype=object)
        order.append("c%d" % (c + 1))
    df = pandas.DataFrame(data, columns=order)
    df.index = rng_idx[:m]
    return df


def fit_frame(cats, ncat, nnum):
    """A training frame whose column c holds exactly the values cats[c] (plus a missing value)."""
    m = max(len(v) for v in cats) + 1
    rows = [[(cats[c][r] if r < len(cats[c]) else 0) for c in range(ncat)] for r in range(m)]
    return make_frame(rows, ncat, nnum, [100 + 3 * r for r in range(m)])


def code_of(name):
    # "c2=v3" -> 203
    c, _, v = name.partition("=")
    if c.startswith("c") and v.startswith("v") and c[1:].isdigit() and v[1:].isdigit():
        return int(c[1:]) * 100 + int(v[1:])
    if c.startswith("c") and c[1:].isdigit() and v.isdigit() and int(v) in INTS:
        return int(c[1:]) * 100 + INTS.index(int(v))
    return -1


def schema_of(tr, A, nnum):
    """the indicator columns, read off what the transformer returns for its own training frame (public behaviour); the
    private `_schema` attribute only if that call fails"""
    num = {"n%d" % (c + 1) for c in range(nnum)}
    try:
        return [c for c in tr.transform(A.copy(deep=True)).columns if c not in num]
    except Exception:
        return list(getattr(tr, "_schema")[0])


def _same_numbers(got, want):
    """exact equality of the NUMBERS (a float64 image of a 64-bit integer is another number beyond 2^53)"""
    got, want = numpy.asarray(got), numpy.asarray(want)
    if got.shape != want.shape:
        return False
    if want.dtype.kind in "iu":
        try:
            g = got.tolist()
            return all((not isinstance(v, float)) or v.is_integer() for v in g) and [int(v) for v in g] == [int(v) for v in want.tolist()]
        except (TypeError, ValueError, OverflowError):
            return False
    return bool(numpy.array_equal(got, want))


def observe(cats, remove, skip, frame_rows, ncat, nnum, kind="str"):
    from mlinsights.mlmodel import CategoriesToIntegers
    KIND[0] = kind
    cols = ["c%d" % (c + 1) for c in range(ncat)]
    rm = [_name(cv // 100, cv % 100) for cv in remove] or None
    A = fit_frame(cats, ncat, nnum)
    # a non-default index; in every other case with repeated labels (a bootstrap sample, two files concatenated)
    dup = (len(frame_rows) + ncat + len(remove) + int(skip)) % 2 == 0
    idx = [7 * (r // 2 if dup else r) + 5 for r in range(len(frame_rows))]
    B = make_frame(frame_rows, ncat, nnum, idx)
    if (len(frame_rows) + len(remove)) % 2:
        B = B[list(B.columns)[::-1]]          # the frame to encode holds its columns in another order than the training frame
    B0 = B.copy(deep=True)
    numorder = [c for c in B.columns if c.startswith("n")]
    out = {}
    tr = CategoriesToIntegers(columns=cols, remove=rm, skip_errors=skip, single=False)
    prior = (len(frame_rows) + ncat + len(remove)) % 3 == 0
    if prior:
        # an earlier life of the transformer: other categories (codes 7..9) in every column, one transform
        A0 = fit_frame([[7, 8, 9][: 1 + (c % 3)] + [9] for c in range(ncat)], ncat, nnum)
        try:
            tr.fit(A0)
            tr.transform(A0.copy(deep=True))
        except Exception:
            pass
    if (len(frame_rows) + len(remove) + ncat) % 4 == 1:
        # the training frame is a filtered view of a larger table: its columns have pandas' `category` dtype and
        # DECLARE a category (code 9) that no row of the frame holds.  A category is what rows hold.
        A = A.copy()
        for c_, col in enumerate(cols):
            held = list(dict.fromkeys(v for v in A[col] if v is not None and v == v))
            extra = _val(9, 0)
            if extra not in held:
                A[col] = pandas.Categorical(A[col], categories=held + [extra])
    Afit = A
    tr.fit(A)
    sch = schema_of(tr, A, nnum)
    out["schema"] = [code_of(s) for s in sch]
    try:
        R = tr.transform(B)
        out["outcome"] = "ok"
    except NameError:             # includes UnboundLocalError
        out["outcome"] = "nameerror"
        R = None
    except Exception:             # "raises an error": the property does not fix its type
        out["outcome"] = "raise"
        R = None
    out.update(res=[[] for _ in frame_rows], others_nan=True, numeric_ok=True, index_ok=True)
    if R is not None:
        ok_cols = list(R.columns) == numorder + sch
        M = R[sch].to_numpy(dtype=float) if ok_cols else numpy.full((len(frame_rows), len(sch)), 7.0)
        out["res"] = [[int(q) for q in numpy.where(M[r] == 1.0)[0]] for r in range(M.shape[0])]
        out["others_nan"] = bool(ok_cols and numpy.all(numpy.isnan(M) | (M == 1.0)))
        out["numeric_ok"] = bool(ok_cols and all(
            _same_numbers(R["n%d" % (c + 1)].to_numpy(), B0["n%d" % (c + 1)].to_numpy()) for c in range(nnum)))
        out["index_ok"] = bool(list(R.index) == idx and len(R) == len(frame_rows))
    if not B.equals(B0):
        out["numeric_ok"] = False
    # single=True
    ts = CategoriesToIntegers(columns=cols, remove=rm, skip_errors=skip, single=True)
    if prior:
        try:
            ts.fit(A0)
            ts.transform(A0.copy(deep=True))
        except Exception:
            pass
    ts.fit(A)
    out["single"] = [[-9] * ncat for _ in frame_rows]
    out["single_rest_ok"] = True
    try:
        S = ts.transform(B)
        out["single_outcome"] = "ok"
        codes = []
        for r in range(len(frame_rows)):
            row = []
            for c in cols:
                v = S[c].iloc[r]
                row.append(-1 if (v is None or (isinstance(v, float) and numpy.isnan(v))) else
                           (int(v) if float(v) == int(v) else -9))
            codes.append(row)
        out["single"] = codes
        out["single_rest_ok"] = bool(list(S.columns) == list(B0.columns) and list(S.index) == idx and all(
            _same_numbers(S["n%d" % (c + 1)].to_numpy(), B0["n%d" % (c + 1)].to_numpy()) for c in range(nnum)))
    except Exception:
        out["single_outcome"] = "raise"
    return out


def _sig(skip, has_unseen, has_remove):
    return "skip=%s unseen=%s remove=%s" % (skip, has_unseen, has_remove)


def case_sig(cats, remove, skip, frame):
    kept = [set(v for v in cats[c] if (c + 1) * 100 + v not in remove) for c in range(len(cats))]
    unseen = any(v != 0 and v not in kept[c] for row in frame for c, v in enumerate(row))
    return _sig(skip, unseen, bool(remove))


def cfg(ncat, vals, extra=""):
    return ("SPECIFICATION TSpec\nCONSTANTS NCat = %d\n Vals = %s\n FitVals = {}\n MaxRows = 1000\n Removes = {}\n DEV_StaleP = FALSE\n"
            "CHECK_DEADLOCK FALSE\n%s" % (ncat, vals, extra))


def run(ctx):
    boot.load()
    thorough = ctx.tier == "thorough"
    invs = "".join("INVARIANT %s\n" % i for i in ("RaisesIffUnseenAndStrict", "NeverNameError", "ExactlyOwnIndicator", "InSchema"))
    vals = "{1, 2, 3}" if thorough else "{1, 2, 3}"
    base = "SPECIFICATION Spec\nCONSTANTS NCat = 2\n Vals = %s\n FitVals = %s\n MaxRows = 2\n Removes <- MCRemoves\n" % (vals, vals)
    r = ctx.add_mc("CatEncode", tlc.run("MC_CatEncode", base + " DEV_StaleP = FALSE\n" + invs, workers=16, coverage=True))
    ctx.require_coverage(r, ["Cell"], "CatEncode")
    if thorough:
        ctx.add_mc("CatEncode(3 cols)", tlc.run(
            "MC_CatEncode", "SPECIFICATION Spec\nCONSTANTS NCat = 3\n Vals = {1, 2}\n FitVals = {1, 2}\n MaxRows = 2\n Removes <- MCRemoves\n DEV_StaleP = FALSE\n" + invs,
            workers=16, timeout=1500))
    ctx.add_mc("CatEncode[DEV_StaleP]", tlc.run(
        "MC_CatEncode", "SPECIFICATION Spec\nCONSTANTS NCat = 2\n Vals = {1, 2}\n FitVals = {1, 2}\n MaxRows = 2\n Removes <- MCRemoves\n DEV_StaleP = TRUE\n"
        "INVARIANT ExactlyOwnIndicator\n", workers=4), expect_violation="ExactlyOwnIndicator")

    # ---- S2C: terminal states of a model (2 columns, values {1,2} + unseen 3) replayed on real frames
    sb = ("SPECIFICATION Spec\nCONSTANTS NCat = 2\n Vals = {1, 2, 3}\n FitVals = %s\n MaxRows = 2\n Removes <- MCRemoves\n"
          " DEV_StaleP = FALSE\nCONSTRAINT Emit\n" % ("{1, 2, 3}" if thorough else "{1, 2}"))
    res = tlc.must_ok(tlc.run("MC_CatEncode", sb, workers=1, timeout=1500, heap="6g"), "emit CatEncode")
    seen = set()
    stride = 1 if thorough else 2
    for case in res.json:
        key = (tuple(map(tuple, case["cats"])), tuple(case["remove"]), case["skip"], tuple(map(tuple, case["frame"])))
        if key in seen:
            continue
        seen.add(key)
        if hash(key) % stride:
            continue
        sig = case_sig(case["cats"], case["remove"], case["skip"], case["frame"])
        ctx.case(key, nontrivial=len(case["frame"]) == 2,
                 sample=dict(kind="s2c", cats=case["cats"], remove=case["remove"], skip=case["skip"], frame=case["frame"],
                             outcome=case["outcome"], res=case["res"]))
        ctx.traces += 1
        try:
            o = observe(case["cats"], case["remove"], case["skip"], case["frame"], 2, 1,
                        kind="int" if hash(key) % 3 == 0 else "str")
        except Exception as e:
            ctx.violation("CallSucceeds", SITE, sig, repr(e), case=case)
            continue
        if o["outcome"] != case["outcome"]:
            ctx.violation("RaisesIffUnseenAndStrict", SITE, sig, dict(got=o["outcome"], want=case["outcome"]), case=case)
        if o["schema"] != case["schema"]:
            ctx.violation("SchemaNames", SITE, sig, dict(got=o["schema"], want=case["schema"]), case=case)
        if case["outcome"] == "ok" and o["outcome"] == "ok":
            if o["res"] != case["res"] or not o["others_nan"]:
                ctx.violation("ExactlyOwnIndicator", SITE, sig, dict(got=o["res"], want=case["res"]), case=case)
            if not (o["numeric_ok"] and o["index_ok"]):
                ctx.violation("NumericPassThrough", SITE, sig, dict(numeric=o["numeric_ok"], index=o["index_ok"]), case=case)
        if o["single_outcome"] != case["outcome"]:
            ctx.violation("RaisesIffUnseenAndStrict", SITE + "(single)", sig, dict(got=o["single_outcome"], want=case["outcome"]), case=case)
        elif case["outcome"] == "ok" and (o["single"] != case["single"] or not o["single_rest_ok"]):
            ctx.violation("SingleIsRank", SITE + "(single)", sig, dict(got=o["single"], want=case["single"]), case=case)

    # ---- C2S: larger random frames
    rng = ctx.rng
    groups = {1: [], 2: [], 3: []}
    for kx in range(1500 if thorough else 240):
        ncat = rng.choice([1, 2, 3, 3])
        nnum = rng.randint(0, ncat)
        cats = [sorted(rng.sample(range(1, 8), rng.randint(1, 5))) for _ in range(ncat)]
        skip = rng.random() < 0.5
        remove = []
        if rng.random() < 0.4:
            c = rng.randrange(ncat)
            remove = sorted({(c + 1) * 100 + rng.choice(cats[c] + [9]) for _ in range(rng.randint(1, 2))})
        m = rng.randint(1, 7)
        pu = rng.choice([0.0, 0.0, 0.15, 0.4])
        frame = [[(0 if rng.random() < 0.2 else (rng.randint(1, 9) if rng.random() < pu else rng.choice(cats[c])))
                  for c in range(ncat)] for _ in range(m)]
        sig = case_sig(cats, remove, skip, frame)
        ctx.case(("c2s", tuple(map(tuple, cats)), tuple(remove), skip, tuple(map(tuple, frame))), nontrivial=m >= 2)
        try:
            o = observe(cats, remove, skip, frame, ncat, nnum, kind=rng.choice(["str", "int"]))
        except Exception as e:
            ctx.violation("CallSucceeds", SITE, sig, repr(e), case=dict(cats=cats, remove=remove, skip=skip, frame=frame))
            continue
        t = dict(id=kx + 1, cats=cats, remove=remove, skip=skip, frame=frame, sig=sig, site=SITE, ncat=ncat, nnum=nnum)
        t.update(o)
        groups[ncat].append(t)
    for ncat, trs in groups.items():
        if not trs:
            continue
        verdicts, st = tlc.validate("CatTrace", cfg(ncat, "{1, 2, 3, 4, 5, 6, 7, 8, 9}"), trs)
        ctx.states += st["states"]
        ctx.transitions += st["transitions"]
        ctx.verdicts(verdicts, {t["id"]: t for t in trs}, SITE)
        ctx.extra.setdefault("trace_runs", []).append(dict(spec="CatTrace", ncat=ncat, traces=len(trs), **st))
    ctx.exhaustive = thorough
    ctx.rule = ("S2C: terminal states of CatEncode (2 categorical columns, values {1,2,3}, all non-empty training value sets, "
                "all 1-2 row frames incl. missing/unseen/removed values, remove in {none, c1=v1, c2=v2}, skip_errors) replayed "
                "on real object-dtype DataFrames with a numeric column and a non-default index, single=False and single=True "
                "(stride %d of %d cases); C2S: random frames (1-3 categorical, 0-3 numeric columns, <=7 rows) validated by "
                "CatTrace. non-trivial = frames of >= 2 rows." % (stride, len(seen)))
    ctx.assumptions += ["columns= is passed explicitly and frames are object dtype (auto-detection is broken by pandas 3: version drift)",
                        "a category listed in `remove` is treated as the code treats it: it has no column, and a row holding it is an unseen value",
                        "categories are strings 'v1'..'v9' or integers (2, 10, 30, 100, ...) in object columns; the spec's order is theirs"]


if __name__ == "__main__":
    raise SystemExit(main("C19", run))
