"""C20 - time-series framing never looks ahead (spec: TsFrame, TsMape)."""
import numpy
from .. import boot, tlc
from ..core import main

SITE = "timeseries.utils.build_ts_X_y"


def _enc(a):
    a = numpy.asarray(a, dtype=float)
    out = numpy.where(numpy.isnan(a), -1, numpy.round(a)).astype(int)
    if not numpy.all(numpy.isnan(a) | (numpy.abs(a - numpy.round(a)) < 1e-9)):
        raise ValueError("non-integer cell")
    return out.tolist()


def call_build(cfg):
    from mlinsights.timeseries.utils import build_ts_X_y
    from mlinsights.timeseries.base import BaseTimeSeries
    n, past, d2, ncol = cfg["n"], cfg["past"], cfg["delay2"], cfg["ncol"]
    if (n + past) % 2:
        model = BaseTimeSeries(past=past, delay1=1, delay2=d2)
    else:       # configured after construction (clone + set_params)
        model = BaseTimeSeries(past=past + 1, delay1=1, delay2=d2 + 1)
        model.set_params(past=past, delay2=d2)
    y = numpy.arange(n, dtype=numpy.float64)
    X = None if ncol == 0 else numpy.array(
        [[100 * (c + 1) + t for c in range(ncol)] for t in range(n)], dtype=numpy.float64)
    w = (1000 + numpy.arange(n, dtype=numpy.float64)) if cfg["hasW"] else None
    # how the caller holds the series is its business: the same values as a column of a table / every other cell of a
    # buffer (non-contiguous views whose neighbours in memory are decoys from the future)
    layout = (n + past + d2 + ncol) % 3
    if layout == 1:
        table = numpy.column_stack([y, 7000 + y[::-1], 8000 + y])
        y = table[:, 0]
        if w is not None:
            w = numpy.column_stack([9000 - w, w])[:, 1]
    elif layout == 2:
        raw = numpy.empty(2 * n, dtype=numpy.float64)
        raw[0::2], raw[1::2] = y, 7000 + y[::-1]
        y = raw[::2]
        if X is not None:
            X = numpy.asfortranarray(X)
    y0, X0, w0 = y.copy(), (None if X is None else X.copy()), (None if w is None else w.copy())
    nx, ny, nw = build_ts_X_y(model, X, y, w, same_rows=cfg["same"])
    untouched = numpy.array_equal(y, y0) and (X is None or numpy.array_equal(X, X0)) and \
        (w is None or numpy.array_equal(w, w0))
    series_kept = True
    if X is not None:
        yh = numpy.arange(n, dtype=numpy.float64) + 0.5          # half-integers: an integer table cannot hold them
        ref = build_ts_X_y(model, numpy.ascontiguousarray(X, dtype=numpy.float64), yh, None, same_rows=cfg["same"])
        for dt in (numpy.int64, numpy.float32, numpy.int32):
            got = build_ts_X_y(model, numpy.ascontiguousarray(X).astype(dt), yh, None, same_rows=cfg["same"])
            for a_, b_ in zip(ref[:2], got[:2]):
                a_, b_ = numpy.asarray(a_, dtype=float), numpy.asarray(b_, dtype=float)
                if a_.shape != b_.shape or not numpy.array_equal(a_, b_, equal_nan=True):
                    series_kept = False
    obs = dict(series_kept=series_kept, X=_enc(nx), Y=_enc(ny), W=[] if nw is None else _enc(nw),
               nrow=int(sum(1 for r in numpy.asarray(ny, dtype=float) if not numpy.isnan(r).all())))
    return obs, untouched


def _sig(cfg):
    return "same=%s exo=%s w=%s" % (cfg["same"], cfg["ncol"] > 0, cfg["hasW"])


def s2c(ctx, consts):
    cfg = ("SPECIFICATION Spec\nCONSTANTS MaxN = %d\n MaxPast = %d\n MaxDelay2 = %d\n MaxCol = %d\n"
           "CONSTRAINT Emit\n" % consts)
    res = tlc.must_ok(tlc.run("MC_TsFrame", cfg, workers=1), "emit TsFrame")
    seen = set()
    for case in res.json:
        key = (case["n"], case["past"], case["delay2"], case["ncol"], case["hasW"], case["same"])
        if key in seen:
            continue
        seen.add(key)
        ctx.case(key, nontrivial=case["n"] - case["delay2"] - case["past"] + 2 >= 2,
                 sample=dict(kind="s2c", **{k: case[k] for k in ("n", "past", "delay2", "ncol", "hasW", "same", "X", "Y")}))
        ctx.traces += 1
        try:
            obs, untouched = call_build(case)
        except Exception as e:  # the call must succeed for every NRow >= 1
            ctx.violation("CallSucceeds", SITE, _sig(case), repr(e), case=case)
            continue
        if not untouched:
            ctx.violation("InputUntouched", SITE, _sig(case), "caller arrays modified", case=case)
        for name in ("X", "Y"):
            if obs[name] != case[name]:
                ctx.violation("TableIsPromised", SITE, _sig(case),
                              dict(table=name, got=obs[name], want=case[name]), case=case)
        if case["hasW"] and not case["same"] and obs["W"] != case["W"]:
            ctx.violation("Weights", SITE, _sig(case), dict(got=obs["W"], want=case["W"]), case=case)
    return len(seen)


def c2s_frames(ctx, count, maxn):
    rng = ctx.rng
    traces = []
    for k in range(count):
        past = rng.randint(1, 8)
        d2 = rng.randint(2, 8)
        n = rng.randint(past + d2 - 1, maxn)
        cfg = dict(n=n, past=past, delay2=d2, ncol=rng.choice([0, 0, 1, 2, 3]),
                   hasW=rng.random() < 0.5, same=rng.random() < 0.5)
        t = dict(id=k + 1, sig=_sig(cfg), kind="build", **cfg)
        if k % 5 == 4:
            # the regressor built on the framing: DummyTimeSeriesRegressor.predict on the symbolic series
            from mlinsights.timeseries.dummies import DummyTimeSeriesRegressor
            # (the regressor checks that its framed target is one-dimensional: it supports delay2 = 2 only)
            d2 = 2
            n = max(n, past + 1)
            cfg.update(same=True, hasW=False, delay2=2, n=n)
            t = dict(id=k + 1, sig="DummyTimeSeriesRegressor.predict", kind="dummy", site="timeseries.DummyTimeSeriesRegressor", **cfg)
            try:
                y = numpy.arange(n, dtype=numpy.float64)
                Xe = None if cfg["ncol"] == 0 else numpy.array([[100 * (c + 1) + tt for c in range(cfg["ncol"])] for tt in range(n)], dtype=numpy.float64)
                if k % 10 == 9:
                    # the caller's buffers had another content in an earlier call on the same regressor (refilled in place)
                    keep = y.copy()
                    y += 1000.0
                    reg = DummyTimeSeriesRegressor(past=past, delay2=d2).fit(Xe, y)
                    reg.predict(Xe, y)
                    y[:] = keep
                    pr = reg.predict(Xe, y)
                    t["sig"] += " refilled"
                else:
                    pr = DummyTimeSeriesRegressor(past=past, delay2=d2).fit(Xe, y).predict(Xe, y)
                t.update(pred=_enc(pr), X=[], Y=[], W=[], nrow=0, series_kept=True)
                traces.append(t)
                ctx.case(("dummy", n, past, d2, cfg["ncol"]))
            except Exception as e:
                ctx.violation("CallSucceeds", "timeseries.DummyTimeSeriesRegressor", "predict", repr(e), case=cfg)
            continue
        try:
            obs, untouched = call_build(cfg)
        except Exception as e:
            ctx.violation("CallSucceeds", SITE, _sig(cfg), repr(e), case=cfg)
            continue
        if not untouched:
            ctx.violation("InputUntouched", SITE, _sig(cfg), "caller arrays modified", case=cfg)
        t.update(obs)
        traces.append(t)
        ctx.case(("c2s", n, past, d2, cfg["ncol"], cfg["hasW"], cfg["same"]))
    verdicts, st = tlc.validate("TsFrameTrace", "TsFrameTrace.cfg", traces)
    ctx.states += st["states"]
    ctx.transitions += st["transitions"]
    ctx.verdicts(verdicts, {t["id"]: t for t in traces}, SITE)
    ctx.extra.setdefault("trace_runs", []).append(dict(spec="TsFrameTrace", traces=len(traces), **st))


def c2s_mape(ctx, count):
    from mlinsights.timeseries.metrics import ts_mape
    rng = ctx.rng
    traces = []
    for k in range(count):
        m = rng.randint(2, 14)
        e = [rng.randint(0, 12) for _ in range(m)]
        naive = rng.random() < 0.3
        if naive:
            p = [-1] + e[:-1]
        else:
            p = [(-1 if rng.random() < 0.2 else rng.randint(0, 12)) for _ in range(m)]
        weighted = rng.random() < 0.4
        w = [rng.randint(1, 3) if weighted else 1 for _ in range(m)]
        # the den == 0 / num != 0 branch uses numpy.infty (removed in NumPy 2): version drift, skip
        live = [t for t in range(1, m) if p[t] != -1 and p[t - 1] != -1]
        den = sum(abs(e[t] - e[t - 1]) * w[t] for t in live)
        num = sum(abs(p[t] - e[t]) * w[t] for t in live)
        if not live:
            continue   # every position masked: the ratio is undefined, nothing is claimed
        if den == 0 and num != 0:
            ctx.skipped.append("ts_mape infinite branch (numpy.infty removed in NumPy 2)") \
                if not ctx.skipped else None
            continue
        # the unit of the series is the caller's business: the ratio does not depend on it (powers of two are exact)
        unit = 2.0 ** rng.choice([0, 0, -40, 30])
        ea = numpy.array(e, dtype=float) * unit
        pa = numpy.array([numpy.nan if v == -1 else v for v in p], dtype=float) * unit
        try:
            v = ts_mape(ea, pa, sample_weight=numpy.array(w, dtype=float) if weighted else None)
        except Exception as ex:
            ctx.violation("CallSucceeds", "timeseries.metrics.ts_mape", "weighted=%s" % weighted, repr(ex),
                          case=dict(e=e, p=p, w=w))
            continue
        v = float(v)
        if not (v == v) or abs(v) > 2000:
            ctx.violation("MapeIsRatio", "timeseries.metrics.ts_mape", "weighted=%s" % weighted,
                          "value %r" % v, case=dict(e=e, p=p, w=w))
            continue
        traces.append(dict(id=k + 1, e=e, p=p, w=w, v=int(round(v * 1000000)), naive=naive,
                           sig="weighted=%s naive=%s" % (weighted, naive), site="timeseries.metrics.ts_mape"))
        ctx.case(("mape", tuple(e), tuple(p), tuple(w)))
    # tables (several series side by side, as the multi-step targets of delay2 > 2): the same two statements
    for k in range(max(count // 5, 40)):
        m, c = rng.randint(3, 12), rng.randint(2, 4)
        unit = 2.0 ** rng.choice([0, -20, 10])
        e2 = numpy.array([[rng.randint(0, 12) for _ in range(c)] for _ in range(m)], dtype=float) * unit
        if not numpy.abs(e2[2:] - e2[1:-1]).sum() > 0:       # the live positions (two forecasts in a row) must vary
            continue
        naive2 = numpy.vstack([numpy.full((1, c), numpy.nan), e2[:-1]])
        other = e2 + numpy.array([[rng.randint(-3, 3) for _ in range(c)] for _ in range(m)], dtype=float) * unit
        for what, p2, want in (("naive", naive2, 1.0), ("any", other, None)):
            try:
                v = float(ts_mape(e2, p2))
            except Exception as ex:           # noqa: BLE001
                ctx.violation("CallSucceeds", "timeseries.metrics.ts_mape", "table", repr(ex), case=dict(e=e2.tolist()))
                break
            ctx.case(("mape2", e2.tobytes(), what))
            if want is not None and abs(v - want) > 1e-9:
                ctx.violation("NaiveIsOne", "timeseries.metrics.ts_mape", "table", "naive forecast of a %dx%d table scores %r" % (m, c, v),
                              case=dict(e=e2.tolist()))
            elif not v >= 0:
                ctx.violation("NonNegative", "timeseries.metrics.ts_mape", "table", "value %r" % v, case=dict(e=e2.tolist(), p=p2.tolist()))
    verdicts, st = tlc.validate("TsMapeTrace", "TsMapeTrace.cfg", traces)
    ctx.states += st["states"]
    ctx.transitions += st["transitions"]
    ctx.verdicts(verdicts, {t["id"]: t for t in traces}, "timeseries.metrics.ts_mape")
    ctx.extra.setdefault("trace_runs", []).append(dict(spec="TsMapeTrace", traces=len(traces), **st))


def run(ctx):
    boot.load(need_ext=False)
    thorough = ctx.tier == "thorough"
    consts = (12, 4, 4, 2) if thorough else (8, 3, 3, 2)
    mc_cfg = ("SPECIFICATION Spec\nCONSTANTS MaxN = %d\n MaxPast = %d\n MaxDelay2 = %d\n MaxCol = %d\n"
              "INVARIANT TableIsPromised\nINVARIANT NothingUnset\nINVARIANT TableNoLookAhead\n"
              "INVARIANT Requirement\n" % consts)
    r = ctx.add_mc("MC_TsFrame%s" % (consts,), tlc.run("MC_TsFrame", mc_cfg, workers=8, coverage=True))
    ctx.require_coverage(r, ["Alloc", "CopyExo", "LagCol", "LagEnd", "TgtCol", "TgtEnd", "Weights"], "TsFrame")
    mcfg = ("SPECIFICATION Spec\nCONSTANTS MaxLen = %d\n MaxVal = 2\nINVARIANT NonNegative\n"
            "INVARIANT NaiveIsOne\nINVARIANT PerfectIsZero\n" % (5 if thorough else 4))
    ctx.add_mc("TsMape", tlc.run("TsMape", mcfg, workers=8))
    n = s2c(ctx, consts)
    c2s_frames(ctx, 8000 if thorough else 300, 80 if thorough else 40)
    c2s_mape(ctx, 12000 if thorough else 500)
    ctx.exhaustive = True
    ctx.rule = ("S2C: every configuration (n<=%d, past<=%d, delay2<=%d, ncol<=%d, weights, same_rows) of the "
                "model-checked TsFrame state space with NRow>=1 is replayed on build_ts_X_y with the symbolic "
                "series y[t]=t and compared cell by cell (%d cases); C2S: seeded random larger configurations "
                "and ts_mape calls validated by TsFrameTrace/TsMapeTrace. distinct = distinct configurations; "
                "non-trivial = at least two output rows." % (consts + (n,)))
    ctx.assumptions += ["delay1 = 1 and use_all_past = False (the property's configuration)",
                        "same_rows weights are not claimed (the code returns the caller's weights unpadded; "
                        "the property's wording covers the X/y table)",
                        "ts_mape with every position masked by NaN forecasts is undefined and not claimed",
                        "ts_mape's infinite branch is skipped (numpy.infty no longer exists: version drift)"]


if __name__ == "__main__":
    raise SystemExit(main("C20", run))
