"""./check setup : build the Cython extensions of /repo out of tree, parse every TLA+ module."""
import glob
import os
import sys
from concurrent.futures import ThreadPoolExecutor
from . import boot, tlc


def main():
    out = boot.build_ext()
    print("extensions:", out)
    mods = sorted(os.path.basename(p)[:-4] for p in glob.glob(os.path.join(tlc.SPEC, "*.tla")))
    bad = []
    with ThreadPoolExecutor(8) as ex:
        for m, (ok, txt) in zip(mods, ex.map(tlc.sany, mods)):
            if not ok:
                bad.append(m)
                print("SANY FAILED", m, txt[-800:])
    print("sany: %d modules, %d failed" % (len(mods), len(bad)))
    boot.load()
    import mlinsights.mlmodel  # noqa
    import mlinsights.mltree   # noqa
    import mlinsights.timeseries  # noqa
    print("import ok")
    return 1 if bad else 0


if __name__ == "__main__":
    sys.exit(main())
