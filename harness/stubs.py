"""Tagged stub estimators supplied to the library as `estimator=` / `model=` arguments (DESIGN 2.3).

Rows carry their id in column 0, so a stub knows exactly which rows / targets / weights it was trained on and
produces exact integer outputs."""
import numpy
from sklearn.base import BaseEstimator, RegressorMixin, ClassifierMixin, TransformerMixin

LOG = []          # global event log the stubs append to (the harness clears / reads it)


def ids(X):
    return [int(round(float(v))) for v in numpy.asarray(X)[:, 0]]


class RecReg(BaseEstimator, RegressorMixin):
    """Regressor: predict(x) = sum(training targets) + x[0]   (all integers)."""

    def __init__(self, tag=0, fail_on=None):
        self.tag = tag
        self.fail_on = fail_on

    def fit(self, X, y, sample_weight=None):
        rows = ids(X)
        ys = [int(round(float(v))) for v in numpy.asarray(y).ravel()]
        ws = [] if sample_weight is None else [int(round(float(v))) for v in numpy.asarray(sample_weight).ravel()]
        LOG.append(("fit", dict(tag=self.tag, rows=rows, ys=ys, ws=ws, obj=id(self))))
        if self.fail_on is not None and self.fail_on(rows):
            raise ValueError("stub: induced failure")
        self.sumy_ = sum(ys)
        self.rows_ = rows
        return self

    def predict(self, X):
        return numpy.array([self.sumy_ + r for r in ids(X)], dtype=numpy.float64)


class RecClf(BaseEstimator, ClassifierMixin):
    """Label-permutation-equivariant classifier: predicts the training label of the row with the same id; its
    score for a class is 100 + 7 * (smallest training row id carrying that class)."""

    def __init__(self, tag=0):
        self.tag = tag

    def fit(self, X, y, sample_weight=None):
        rows = ids(X)
        ys = [v.item() if hasattr(v, "item") else v for v in numpy.asarray(y).ravel()]
        LOG.append(("fitclf", dict(tag=self.tag, rows=rows, ys=ys, obj=id(self))))
        self.classes_ = numpy.array(sorted(set(ys)))
        self.label_of_row_ = dict(zip(rows, ys))
        self.score_ = {c: 100.0 + 7.0 * min(r for r, v in zip(rows, ys) if v == c) for c in self.classes_.tolist()}
        return self

    def predict(self, X):
        return numpy.array([self.label_of_row_[r] for r in ids(X)], dtype=self.classes_.dtype)

    def predict_proba(self, X):
        row = [self.score_[c] for c in self.classes_.tolist()]
        return numpy.array([row for _ in ids(X)], dtype=numpy.float64)


class RecRegF(BaseEstimator, RegressorMixin):
    """Regressor that records the (float) targets it is trained on and predicts fixed positive dyadic values."""

    def __init__(self, tag=0):
        self.tag = tag

    def fit(self, X, y, sample_weight=None):
        LOG.append(("fitregf", dict(tag=self.tag, rows=ids(X), ys=numpy.asarray(y, dtype=float).ravel().copy())))
        self.fitted_ = True
        return self

    def predict(self, X):
        return numpy.array([0.5 * (1 + (r % 4)) for r in ids(X)], dtype=numpy.float64)


class LookupClf(BaseEstimator, ClassifierMixin):
    """Binary classifier whose probability for a row is an exact dyadic lookup on (training-set signature, row id):
    no floating-point arithmetic, exact ties with the threshold 0.5 occur on purpose."""
    TABLE = [0.125, 0.25, 0.375, 0.5, 0.5, 0.625, 0.75, 0.875]

    def __init__(self, salt=0):
        self.salt = salt

    def fit(self, X, y, sample_weight=None):
        rows = ids(X)
        self.sig_ = (sum((r + 1) * 2654435761 for r in rows) + 97 * len(rows) + self.salt) % (2 ** 32)
        self.classes_ = numpy.array([0, 1])
        return self

    def predict_proba(self, X):
        out = []
        for r in ids(X):
            q = ((self.sig_ ^ (r * 40503 + 12345)) >> 3) % 8
            p1 = self.TABLE[q]
            out.append([1.0 - p1, p1])
        return numpy.array(out, dtype=numpy.float64).reshape((-1, 2))

    def predict(self, X):
        return (self.predict_proba(X)[:, 1] >= 0.5).astype(numpy.int32)

    def score(self, X, y, sample_weight=None):
        return 0.0


class RecClf2(BaseEstimator, ClassifierMixin):
    """Classifier for partition/dispatch checks: records the rows it was trained on; for a probe row it answers the class
    of index (sum of training row ids + probe id) mod n_classes, with a one-hot probability row over classes_."""

    def __init__(self, slow=False):
        self.slow = slow

    def fit(self, X, y, sample_weight=None):
        rows = ids(X)
        ys = [int(round(float(v))) for v in numpy.asarray(y).ravel()]
        ws = [] if sample_weight is None else [int(round(float(v))) for v in numpy.asarray(sample_weight).ravel()]
        LOG.append(("fit", dict(rows=rows, ys=ys, ws=ws, obj=id(self))))
        if self.slow and 1 in rows and len(rows) < 10 ** 6:
            import time
            time.sleep(0.03)
        self.classes_ = numpy.array(sorted(set(ys)))
        self.rows_ = rows
        self.sumid_ = sum(rows)
        return self

    def _idx(self, X):
        return [(self.sumid_ + r) % len(self.classes_) for r in ids(X)]

    def predict(self, X):
        return numpy.array([self.classes_[k] for k in self._idx(X)])

    def predict_proba(self, X):
        out = numpy.zeros((numpy.asarray(X).shape[0], len(self.classes_)))
        for q, k in enumerate(self._idx(X)):
            out[q, k] = 1.0
        return out


class SlowRecReg(RecReg):
    def fit(self, X, y, sample_weight=None):
        if 1 in ids(X) and numpy.asarray(X).shape[0] < 10 ** 6:
            import time
            time.sleep(0.03)
        return RecReg.fit(self, X, y, sample_weight)


class StubEmbedding(BaseEstimator, TransformerMixin):
    """Deterministic stand-in for TSNE (fit_transform only): a fixed linear 2-D embedding.  Like TSNE it has a
    `perplexity` parameter (PredictableTSNE lowers it on its private copy when the training set is small)."""

    def __init__(self, scale=1.0, perplexity=30.0):
        self.scale = scale
        self.perplexity = perplexity

    def fit_transform(self, X, y=None):
        X = numpy.asarray(X, dtype=float)
        a = X[:, 0] * 2.0 + X[:, -1] * self.scale + 1.0
        b = X[:, 0] - 3.0 * X[:, -1] + numpy.arange(X.shape[0]) % 3
        return numpy.vstack([a, b]).T


class FailOnCall(BaseEstimator, RegressorMixin, ClassifierMixin):
    """Inner estimator whose k-th fit (counted over all clones since reset()) raises; otherwise a trivial model."""
    COUNT = [0]

    def __init__(self, k=1):
        self.k = k

    @classmethod
    def reset(cls):
        cls.COUNT[0] = 0

    def fit(self, X, y=None, sample_weight=None):
        FailOnCall.COUNT[0] += 1
        if FailOnCall.COUNT[0] == self.k:
            raise RuntimeError("stub: inner estimator fails on call %d" % self.k)
        ya = numpy.asarray(y if y is not None else [0.0])
        yy = ya.ravel()
        self.classes_ = numpy.unique(yy)
        if ya.ndim == 2 and ya.shape[1] > 1:
            self.mean_ = ya.mean(axis=0)
        else:
            self.mean_ = yy[0] if yy.dtype.kind in "iuOSU" else float(numpy.mean(yy))
        return self

    def predict(self, X):
        n = numpy.asarray(X).shape[0]
        if isinstance(self.mean_, numpy.ndarray):
            return numpy.tile(self.mean_, (n, 1))
        return numpy.array([self.mean_] * n)

    def predict_proba(self, X):
        out = numpy.zeros((numpy.asarray(X).shape[0], len(self.classes_)))
        out[:, 0] = 1.0
        return out

    def transform(self, X):
        return numpy.asarray(X)[:, :1]


class RecTrans(RecReg, TransformerMixin):
    """stub with a transform method: one column, same formula as RecReg.predict"""

    def transform(self, X):
        return self.predict(X).reshape((-1, 1))


class RecRegFP(RecReg):
    """RecReg that also has fit_predict (as clusterers and outlier detectors do), answering something ELSE than
    fit followed by predict: a wrapper asked for `predict` must not be served by it"""

    def fit_predict(self, X, y=None, sample_weight=None):
        self.fit(X, y, sample_weight)
        return numpy.full((numpy.asarray(X).shape[0],), -1.0)


class RecTransU(RecReg, TransformerMixin):
    """unsupervised stub transformer: fit(X, y=None, sample_weight=None) records the rows and weights it gets (no
    targets), transform returns the row id in one column"""

    def fit(self, X, y=None, sample_weight=None):
        rows = ids(X)
        ws = [] if sample_weight is None else [int(round(float(v))) for v in numpy.asarray(sample_weight).ravel()]
        ys = [] if y is None else [int(round(float(v))) for v in numpy.asarray(y).ravel()]
        LOG.append(("fit", dict(tag=self.tag, rows=rows, ys=ys, ws=ws, obj=id(self))))
        self.sumy_ = sum(ys)
        self.rows_ = rows
        return self

    def transform(self, X):
        return self.predict(X).reshape((-1, 1))


class WarmReg(RecReg):
    """like RecReg, but the fitted state lives in a numpy array that a later fit overwrites IN PLACE (as warm-started
    linear models do with coef_): a "copy" that shares memory with its original is exposed by re-training it"""

    def fit(self, X, y, sample_weight=None):
        RecReg.fit(self, X, y, sample_weight)
        if hasattr(self, "state_"):
            self.state_[0] = self.sumy_
        else:
            self.state_ = numpy.array([float(self.sumy_), 1.0])
        return self

    def predict(self, X):
        return numpy.array([self.state_[0] + r for r in ids(X)], dtype=numpy.float64)


class CarryReg(BaseEstimator, RegressorMixin):
    """A regressor that, like a warm-started model, carries something from one fit of the SAME object to the next
    (the number of fits shifts its predictions).  A meta-estimator that clones its `estimator` parameter never shows
    the difference; one that trains the caller's object lets an earlier fit leak into a later one (C03)."""

    def __init__(self, shift=1.0):
        self.shift = shift

    def fit(self, X, y, sample_weight=None):
        self.n_fits_ = getattr(self, "n_fits_", 0) + 1
        y = numpy.asarray(y, dtype=float)
        self.mean_ = float(numpy.average(y, weights=sample_weight)) if y.shape[0] else 0.0
        return self

    def predict(self, X):
        return numpy.full((numpy.asarray(X).shape[0],), self.mean_ + self.shift * (self.n_fits_ - 1))
