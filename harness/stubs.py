"""Tagged stub estimators supplied to the library as `estimator=` / `model=` arguments (DESIGN 2.3).

Rows carry their id in column 0, so a stub knows exactly which rows / targets / weights it was trained on and
produces exact integer outputs."""
import numpy
from sklearn.base import BaseEstimator, RegressorMixin, ClassifierMixin, TransformerMixin

LOG = []          # global event log the stubs append to (the harness clears / reads it)


def ids(X):
    return [int(round(float(v))) for v in numpy.asarray(X)[:, 0]]


class RecReg(BaseEstimator, RegressorMixin):
    """Regressor: predict(x) = sum(training targets) + x[0]   (all integers)."""

    def __init__(self, tag=0, fail_on=None):
        self.tag = tag
        self.fail_on = fail_on

    def fit(self, X, y, sample_weight=None):
        rows = ids(X)
        ys = [int(round(float(v))) for v in numpy.asarray(y).ravel()]
        ws = [] if sample_weight is None else [int(round(float(v))) for v in numpy.asarray(sample_weight).ravel()]
        LOG.append(("fit", dict(tag=self.tag, rows=rows, ys=ys, ws=ws, obj=id(self))))
        if self.fail_on is not None and self.fail_on(rows):
            raise ValueError("stub: induced failure")
        self.sumy_ = sum(ys)
        self.rows_ = rows
        return self

    def predict(self, X):
        return numpy.array([self.sumy_ + r for r in ids(X)], dtype=numpy.float64)
