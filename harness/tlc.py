"""Thin driver around TLC: model checking, case export (spec -> code) and batch trace validation
(code -> spec).  All scratch lives under /verif/.build/tlc/<uuid> and is removed after the run.
"""
import json
import os
import re
import shutil
import subprocess
import time
import uuid

VERIF = os.path.dirname(os.path.dirname(os.path.abspath(__file__)))
SPEC = os.path.join(VERIF, "spec")
SCR = os.path.join(VERIF, ".build", "tlc")
JAR = "/opt/veriftools/tla/tla2tools.jar:/opt/veriftools/tla/CommunityModules-deps.jar"


class TLCError(RuntimeError):
    """machinery failure (exit code 2 of ./check)"""


class TLCResult:
    def __init__(self):
        self.stdout = ""
        self.rc = None
        self.generated = 0
        self.distinct = 0
        self.depth = 0
        self.ok = False            # finished without error
        self.violated = None       # name of violated invariant/property, if any
        self.error = None
        self.json = []             # decoded PrintT(ToJson(..)) records
        self.coverage = {}         # action -> (distinct, total)
        self.wall = 0.0
        self.cmd = ""

    def summary(self):
        return dict(generated=self.generated, distinct=self.distinct, depth=self.depth,
                    ok=self.ok, violated=self.violated, wall_s=round(self.wall, 2))


_JSON_LINE = re.compile(r'^"(\{.*\}|\[.*\])"$')


def _decode_tla_string(s):
    # TLC prints strings with \" and \\ escapes only
    out = []
    i = 0
    while i < len(s):
        c = s[i]
        if c == "\\" and i + 1 < len(s):
            n = s[i + 1]
            if n == "n":
                out.append("\n")
            elif n == "t":
                out.append("\t")
            else:
                out.append(n)
            i += 2
        else:
            out.append(c)
            i += 1
    return "".join(out)


def parse_output(res):
    txt = res.stdout
    for line in txt.splitlines():
        line = line.strip()
        m = _JSON_LINE.match(line)
        if m:
            try:
                res.json.append(json.loads(_decode_tla_string(m.group(1))))
            except Exception as e:  # pragma: no cover
                raise TLCError("cannot decode TLC JSON line: %r (%s)" % (line[:200], e))
    m = None
    for m in re.finditer(r"(\d+) states generated, (\d+) distinct states found", txt):
        pass
    if m:
        res.generated, res.distinct = int(m.group(1)), int(m.group(2))
    m = re.search(r"The depth of the complete state graph search is (\d+)", txt)
    if m:
        res.depth = int(m.group(1))
    m = re.search(r"Invariant (\S+) is violated", txt)
    if m:
        res.violated = m.group(1)
    m = re.search(r"Action property (\S+) is violated", txt) or m
    if m and not res.violated:
        res.violated = m.group(1)
    if "Temporal properties were violated" in txt and not res.violated:
        res.violated = "temporal"
    if re.search(r"Error: Deadlock reached", txt) and not res.violated:
        res.violated = "deadlock"
    m = re.search(r"Error: The postcondition (\S+)? ?.*?(is false|violated)", txt)
    if m and not res.violated:
        res.violated = "postcondition"
    if "Assumption" in txt and "is false" in txt and not res.violated:
        res.violated = "assumption"
    res.ok = ("Model checking completed. No error has been found." in txt) or \
             ("Finished computing initial states" in txt and "No error has been found" in txt)
    if not res.ok and res.violated is None:
        # simulation mode ends differently
        if "-simulate" in res.cmd and "Error:" not in txt:
            res.ok = True
    errs = [l for l in txt.splitlines() if l.startswith("Error:") or "Parse Error" in l
            or "Semantic error" in l or "*** Errors:" in l]
    if errs and res.violated is None:
        res.error = "\n".join(errs[:5])
    # coverage: lines like  <Name line 12, col 1 to line 20, col 30 of module M>: 12:340
    for m in re.finditer(r"<(\w+) line \d+, col \d+ to line \d+, col \d+ of module (\w+)>: (\d+):(\d+)", txt):
        name = m.group(1)
        d, t = int(m.group(3)), int(m.group(4))
        old = res.coverage.get(name, (0, 0))
        res.coverage[name] = (max(old[0], d), max(old[1], t))
    return res


def run(module, cfg, workers=8, timeout=900, env=None, simulate=None, depth=None, coverage=False,
        deadlock=True, seed=None, dfs=False, extra=None, heap="4g", keep=False):
    """Run TLC on spec/<module>.tla with config `cfg` (a path relative to spec/, or cfg *text*)."""
    os.makedirs(SCR, exist_ok=True)
    tag = uuid.uuid4().hex[:10]
    meta = os.path.join(SCR, tag)
    os.makedirs(meta)
    try:
        if "\n" in cfg or cfg.strip().startswith(("SPECIFICATION", "INIT", "CONSTANT")):
            cfgpath = os.path.join(meta, "gen.cfg")
            with open(cfgpath, "w") as f:
                f.write(cfg)
        else:
            cfgpath = os.path.join(SPEC, cfg)
        jopts = ["-XX:+UseParallelGC", "-Xmx" + heap]
        if dfs:
            jopts.append("-Dtlc2.tool.queue.IStateQueue=StateDeque")
        cmd = ["java"] + jopts + ["-cp", JAR, "tlc2.TLC", "-metadir", os.path.join(meta, "md"),
                                  "-noGenerateSpecTE", "-config", cfgpath,
                                  "-workers", str(workers)]
        if not deadlock:
            cmd.append("-deadlock")
        if coverage:
            cmd += ["-coverage", "1"]
        if simulate is not None:
            cmd += ["-simulate", simulate]
        if depth is not None:
            cmd += ["-depth", str(depth)]
        if seed is not None:
            cmd += ["-seed", str(seed)]
        if extra:
            cmd += list(extra)
        cmd.append(os.path.join(SPEC, module + ".tla"))
        e = dict(os.environ)
        e.pop("JAVA_TOOL_OPTIONS", None)
        if env:
            e.update({k: str(v) for k, v in env.items()})
        res = TLCResult()
        res.cmd = " ".join(cmd)
        t0 = time.time()
        try:
            p = subprocess.run(cmd, cwd=SPEC, env=e, capture_output=True, text=True, timeout=timeout)
            res.stdout = p.stdout + ("\n" + p.stderr if p.stderr.strip() else "")
            res.rc = p.returncode
        except subprocess.TimeoutExpired as ex:
            out = ex.stdout or b""
            res.stdout = out.decode(errors="replace") if isinstance(out, bytes) else out
            res.rc = -9
            res.error = "timeout after %ss" % timeout
            subprocess.run(["pkill", "-f", meta], capture_output=True)
        res.wall = time.time() - t0
        parse_output(res)
        return res
    finally:
        if not keep:
            shutil.rmtree(meta, ignore_errors=True)


def sany(module):
    cmd = ["java", "-cp", JAR, "tla2sany.SANY", os.path.join(SPEC, module + ".tla")]
    p = subprocess.run(cmd, cwd=SPEC, capture_output=True, text=True, timeout=120)
    ok = p.returncode == 0 and "*** Errors" not in p.stdout and "Fatal errors" not in p.stdout \
        and "Could not parse" not in p.stdout and "Parse Error" not in p.stdout
    return ok, p.stdout + p.stderr


def must_ok(res, what):
    """Machinery guard: a TLC run that was expected to complete must have completed."""
    if res.error or (not res.ok and res.violated is None):
        raise TLCError("%s: TLC did not complete: %s\n%s" % (what, res.error, res.stdout[-3000:]))
    return res


# ------------------------------------------------------------------ batch trace validation

def write_traces(traces, name):
    """Write a batch (list of dicts, each with an 'id') as one JSON array; returns the path."""
    d = os.path.join(VERIF, ".build", "traces")
    os.makedirs(d, exist_ok=True)
    path = os.path.join(d, "%s-%s.json" % (name, uuid.uuid4().hex[:8]))
    with open(path, "w") as f:
        json.dump(traces, f, separators=(",", ":"))
    return path


class Verdict:
    __slots__ = ("id", "accepted", "reached", "fails", "reject")

    def __init__(self, id_):
        self.id = id_
        self.accepted = False
        self.reached = 0
        self.fails = []     # (clause, l, detail)
        self.reject = None  # (l, why)

    @property
    def ok(self):
        return self.accepted and not self.fails

    def describe(self):
        if self.ok:
            return "accepted"
        if self.fails:
            c, l, d = self.fails[0]
            return "clause %s false at event %s%s" % (c, l, (" (%s)" % json.dumps(d)) if d else "")
        if self.reject:
            return "rejected at event %s: %s" % (self.reject[0], json.dumps(self.reject[1]))
        return "rejected after event %s (no spec action enabled)" % self.reached


def validate(trace_module, cfg, traces, name=None, timeout=1800, chunk=2000, heap="4g"):
    """Validate `traces` (list of dicts with unique 'id') against spec/<trace_module>.tla.

    The trace module prints, through TraceKit, JSON records
      {"k":"A","id":..}                 trace fully consumed
      {"k":"F","id":..,"c":clause,"l":l,"d":detail}   a requirement evaluated to FALSE
      {"k":"X","id":..,"l":l,"why":{..}}  no action enabled for event l
      {"k":"R","id":..,"l":l}           progress
    Returns ({id: Verdict}, stats)
    """
    name = name or trace_module
    verdicts = {}
    stats = dict(states=0, transitions=0, launches=0, wall_s=0.0)
    for t in traces:
        if t["id"] in verdicts:
            raise TLCError("duplicate trace id %r" % (t["id"],))
        verdicts[t["id"]] = Verdict(t["id"])
    for off in range(0, len(traces), chunk):
        part = traces[off:off + chunk]
        path = write_traces(part, name)
        try:
            res = run(trace_module, cfg, workers=1, timeout=timeout, env={"TRACE_FILE": path},
                      deadlock=False, heap=heap)
            if res.error or (not res.ok):
                raise TLCError("trace validation run failed (%s): %s\n%s" %
                               (trace_module, res.error or res.violated, res.stdout[-3000:]))
            stats["states"] += res.distinct
            stats["transitions"] += res.generated
            stats["launches"] += 1
            stats["wall_s"] += res.wall
            for rec in res.json:
                if not isinstance(rec, dict) or "k" not in rec:
                    continue
                v = verdicts.get(rec.get("id"))
                if v is None:
                    continue
                k = rec["k"]
                if k == "A":
                    v.accepted = True
                elif k == "F":
                    item = (rec.get("c"), rec.get("l"), rec.get("d"))
                    if item not in v.fails:
                        v.fails.append(item)
                elif k == "X":
                    if v.reject is None:
                        v.reject = (rec.get("l"), rec.get("why"))
                elif k == "R":
                    v.reached = max(v.reached, rec.get("l", 0))
        finally:
            try:
                os.remove(path)
            except OSError:
                pass
    stats["wall_s"] = round(stats["wall_s"], 2)
    return verdicts, stats
