------------------------------ MODULE Bootstrap ------------------------------
(* mlinsights/mlmodel/interval_regressor.py IntervalRegressor.                           *)
(* Rows are triples (id, y, w) with id in 0..n-1.  Each of the m estimators requests     *)
(* `size` indices from a half-open range [low, high) (numpy.random.randint) and is       *)
(* trained on the triples at those indices.  A trained model is abstracted to a          *)
(* recording regressor whose prediction for a probe x is (sum of its training targets)   *)
(* + x, an exact integer, so aggregation clauses are exact.                              *)
EXTENDS Integers, Sequences, FiniteSets, TLC

CONSTANTS MaxN, MaxM, Alphas,        \* Alphas: set of <<a, b>> meaning alpha = a/b
          Probes,                    \* probe values x
          DEV_LastRowExcluded        \* TRUE: randint(0, n-1, size) as the code had it

VARIABLES n, m, alpha,
          e,            \* next estimator to train (1-based); m+1 when all are trained
          req,          \* req[j] = <<low, high, size>> requested by estimator j
          train,        \* train[j] = sequence of row ids estimator j was fitted on
          phase         \* "fit" | "fitted" | "failed"
vars == <<n, m, alpha, e, req, train, phase>>

Y(i) == 10 + 3 * i
W(i) == 1 + (i % 2)
\* int(n * alpha + 0.5)
SizeOf(nn, al) == (2 * nn * al[1] + al[2]) \div (2 * al[2])
High == IF DEV_LastRowExcluded THEN n - 1 ELSE n

Init == /\ n \in 1 .. MaxN /\ m \in 1 .. MaxM /\ alpha \in Alphas
        /\ e = 1 /\ req = <<>> /\ train = <<>> /\ phase = "fit"

\* rnd = numpy.random.randint(0, high, size); est.fit(X[rnd], y[rnd], w[rnd])
Draw == /\ phase = "fit" /\ e <= m
        /\ IF High <= 0 THEN phase' = "failed" /\ UNCHANGED <<e, req, train>>          \* ValueError: high <= 0
           ELSE \E idx \in [1 .. SizeOf(n, alpha) -> 0 .. High - 1] :
                   /\ req' = Append(req, <<0, High, SizeOf(n, alpha)>>)
                   /\ train' = Append(train, idx)
                   /\ e' = e + 1 /\ UNCHANGED phase
        /\ UNCHANGED <<n, m, alpha>>
Fitted == /\ phase = "fit" /\ e = m + 1 /\ phase' = "fitted" /\ UNCHANGED <<n, m, alpha, e, req, train>>
Return == phase \in {"fitted", "failed"} /\ UNCHANGED vars
Next == Draw \/ Fitted \/ Return
Spec == Init /\ [][Next]_vars

-----------------------------------------------------------------------------
RECURSIVE SumY(_, _)
SumY(s, j) == IF j > Len(s) THEN 0 ELSE Y(s[j]) + SumY(s, j + 1)
PredOf(j, x) == SumY(train[j], 1) + x                      \* predict_all[x][j]
RECURSIVE SumPred(_, _)
SumPred(j, x) == IF j > m THEN 0 ELSE PredOf(j, x) + SumPred(j + 1, x)
MTimesPredict(x) == SumPred(1, x)                          \* m * predict(x)
PredSet(x) == {PredOf(j, x) : j \in 1 .. m}
MinP(x) == CHOOSE v \in PredSet(x) : \A u \in PredSet(x) : v <= u
MaxP(x) == CHOOSE v \in PredSet(x) : \A u \in PredSet(x) : v >= u

FitSucceeds   == phase # "failed"
EligibleAll   == \A j \in DOMAIN req : req[j][1] = 0 /\ req[j][2] = n       \* every row can be drawn
SizeExact     == \A j \in DOMAIN req : req[j][3] = SizeOf(n, alpha) /\ Len(train[j]) = SizeOf(n, alpha)
InRange       == \A j \in DOMAIN train : \A q \in DOMAIN train[j] : train[j][q] \in 0 .. n - 1
MinLeMeanLeMax == phase = "fitted" => \A x \in Probes : m * MinP(x) <= MTimesPredict(x) /\ MTimesPredict(x) <= m * MaxP(x)
=============================================================================
