---------------------------- MODULE BootstrapTrace ----------------------------
(* code -> spec for IntervalRegressor with a recording base regressor and                *)
(* numpy.random.randint wrapped during fit.  Events:                                     *)
(*   draw {low, high, size, idx}     one randint call (any thread)                       *)
(*   fit  {rows, ys, ws}             one base-estimator fit (rows carry their id)        *)
(*   fitted {m} | raised {err}       fit returned / raised                               *)
(*   predict {x, all, mean_m, sorted}  per probe: predict_all row, m*predict, sorted row *)
(* Every fit is trained on rows of the training set with their own targets and weights; *)
(* a fit whose rows are those of a recorded randint call pins that call down as its draw. *)
EXTENDS Integers, Sequences, FiniteSets, TraceKit
VARIABLES tid, l, pending, fits
T   == Batch[tid]
NEv == Len(T.ev)
Ev  == T.ev[l]
SizeOf(nn, a, b) == (2 * nn * a + b) \div (2 * b)
RECURSIVE SumS(_, _)
SumS(s, j) == IF j > Len(s) THEN 0 ELSE s[j] + SumS(s, j + 1)
IsSorted(s) == \A j \in 1 .. Len(s) - 1 : s[j] <= s[j + 1]
SameBag(s, t) == Len(s) = Len(t) /\ \A v \in {s[j] : j \in 1 .. Len(s)} :
                    Cardinality({j \in 1 .. Len(s) : s[j] = v}) = Cardinality({j \in 1 .. Len(t) : t[j] = v})
TInit == tid \in 1 .. Len(Batch) /\ l = 1 /\ pending = <<>> /\ fits = <<>>
Go == l' = l + 1 /\ UNCHANGED tid
Want == SizeOf(T.n, T.a, T.b)
\* How the indices are drawn is the implementation's business (one global randint per estimator, one generator per
\* estimator, ...): a randint call is only *evidence*.  It is kept as pending; a fit that was trained on exactly the
\* rows of a pending call identifies that call as its bootstrap draw, and then the draw must have been over all n rows.
TDraw == /\ l <= NEv /\ Ev.a = "draw"
         /\ pending' = Append(pending, [idx |-> Ev.idx, low |-> Ev.low, high |-> Ev.high]) /\ UNCHANGED fits /\ Go
RowsOK == \A q \in 1 .. Len(Ev.rows) : Ev.rows[q] \in 0 .. T.n - 1
AlignedFit == /\ RowsOK
              /\ Ev.ys = [q \in 1 .. Len(Ev.rows) |-> T.y[Ev.rows[q] + 1]]
              /\ (T.weighted => Ev.ws = [q \in 1 .. Len(Ev.rows) |-> T.w[Ev.rows[q] + 1]])
              /\ (~T.weighted => Ev.ws = <<>>)
Match(j) == pending[j].idx = Ev.rows
TFit == /\ l <= NEv /\ Ev.a = "fit"
        /\ Require(RowsOK /\ AlignedFit, T.id, "Aligned", l, [rows |-> Ev.rows, ys |-> Ev.ys, ws |-> Ev.ws])
        /\ IF \E j \in 1 .. Len(pending) : Match(j)
           THEN LET j == CHOOSE j \in 1 .. Len(pending) : Match(j) IN
                /\ Require(pending[j].low = 0 /\ pending[j].high = T.n, T.id, "EligibleAll", l,
                           [low |-> pending[j].low, high |-> pending[j].high, n |-> T.n])
                /\ pending' = [q \in 1 .. Len(pending) - 1 |-> IF q < j THEN pending[q] ELSE pending[q + 1]]
           ELSE UNCHANGED pending
        /\ Require(Len(Ev.rows) = Want, T.id, "SizeExact", l, [got |-> Len(Ev.rows), want |-> Want])
        /\ fits' = Append(fits, SumS(Ev.ys, 1)) /\ Go
TFitted == /\ l <= NEv /\ Ev.a = "fitted"
           /\ Require(Len(fits) = T.m /\ Ev.m = T.m, T.id, "OneModelPerEstimator", l, [fits |-> Len(fits), m |-> T.m])
           /\ UNCHANGED <<pending, fits>> /\ Go
TRaised == /\ l <= NEv /\ Ev.a = "raised"
           /\ Failed(T.id, "FitSucceeds", l, [err |-> Ev.err, n |-> T.n])
           /\ UNCHANGED <<pending, fits>> /\ Go
\* the recording regressor j predicts fits[j] + x
TPredict == /\ l <= NEv /\ Ev.a = "predict"
            /\ LET all == [j \in 1 .. Len(fits) |-> fits[j] + Ev.x] IN
               /\ Require(Ev.all = all, T.id, "PredictAllIsEachModel", l, [got |-> Ev.all, want |-> all])
               /\ Require(Ev.mean_m = SumS(all, 1), T.id, "MeanOfAll", l, [got |-> Ev.mean_m, want |-> SumS(all, 1)])
               /\ Require(IsSorted(Ev.sorted) /\ SameBag(Ev.sorted, all), T.id, "SortedSameMultiset", l, [got |-> Ev.sorted, want |-> all])
               /\ Require(Len(Ev.sorted) > 0 => (Len(all) * Ev.sorted[1] <= Ev.mean_m /\ Ev.mean_m <= Len(all) * Ev.sorted[Len(Ev.sorted)]),
                          T.id, "MinLeMeanLeMax", l, <<>>)
            /\ UNCHANGED <<pending, fits>> /\ Go
TDone == /\ l = NEv + 1 /\ Accepted(T.id) /\ l' = NEv + 2 /\ UNCHANGED <<tid, pending, fits>>
TNext == TDraw \/ TFit \/ TFitted \/ TRaised \/ TPredict \/ TDone
TSpec == TInit /\ [][TNext]_<<tid, l, pending, fits>>
=============================================================================
