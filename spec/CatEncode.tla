------------------------------ MODULE CatEncode ------------------------------
(* mlinsights/mlmodel/categories_to_integers.py CategoriesToIntegers.                    *)
(* Categorical columns are 1..NCat, category values are positive integers whose order is *)
(* the order of the strings they stand for, 0 is a missing value (None / NaN).           *)
(* Mechanism: fit = per-column sorted distinct values; _build_schema = running offset    *)
(* `last`, per-column `position` and `new_vector` (ranks after `remove`); transform      *)
(* (single=False) = the row loop / cell loop with the variable `p`, one action per cell. *)
(* Requirement: a row has an indicator exactly at the columns named column=value of its  *)
(* own seen values; an unseen value raises, or (skip_errors) touches no cell at all.     *)
EXTENDS Integers, Sequences, FiniteSets, TLC

CONSTANTS NCat,            \* number of categorical columns
          Vals,            \* category values that can occur (positive integers)
          FitVals,         \* values that can occur in the training frame (a subset of Vals)
          MaxRows,         \* rows of the frame given to transform
          Removes,         \* candidate `remove` sets, each a set of <<column, value>>
          DEV_StaleP       \* TRUE: skip_errors falls through to res[i, p] = 1 with the previous p (the defect)

Missing == 0
NoP     == -1             \* `p` not yet bound (NameError if used)
Cols    == 1 .. NCat

VARIABLES cats,            \* fit: cats[c] = set of values seen in column c
          remove, skip,
          frame,           \* transform input: frame[i][c]
          pc, i, k, p,     \* transform loop: row, column, the code's variable p
          res,             \* res[i] = set of schema positions holding 1.0 in row i (others NaN)
          outcome          \* "ok" | "raise" (ValueError unseen) | "nameerror"
vars == <<cats, remove, skip, frame, pc, i, k, p, res, outcome>>

-----------------------------------------------------------------------------
(* fit + _build_schema *)
Kept(c)      == {v \in cats[c] : <<c, v>> \notin remove}
Rank(S, v)   == Cardinality({u \in S : u < v})                 \* new_vector[c][v]
RECURSIVE Position(_)
Position(c)  == IF c = 1 THEN 0 ELSE Position(c - 1) + Cardinality(Kept(c - 1))     \* position[c] = last
Width        == Position(NCat) + Cardinality(Kept(NCat))
\* the schema: position -> <<column, value>>  ("column=value")
NameAt(q)    == CHOOSE cv \in {<<c, v>> : c \in Cols, v \in Vals} :
                   cv[2] \in Kept(cv[1]) /\ Position(cv[1]) + Rank(Kept(cv[1]), cv[2]) = q
Schema       == [q \in 0 .. Width - 1 |-> NameAt(q)]

-----------------------------------------------------------------------------
Init == /\ cats \in [Cols -> (SUBSET FitVals) \ {{}}]
        /\ remove \in Removes /\ skip \in BOOLEAN
        /\ \E m \in 1 .. MaxRows : frame \in [1 .. m -> [Cols -> Vals \cup {Missing}]]
        /\ pc = "cell" /\ i = 1 /\ k = 1 /\ p = NoP
        /\ res = [r \in 1 .. Len(frame) |-> {}]
        /\ outcome = "ok"

Advance == IF k < NCat THEN k' = k + 1 /\ i' = i /\ pc' = "cell"
           ELSE IF i < Len(frame) THEN k' = 1 /\ i' = i + 1 /\ pc' = "cell"
           ELSE k' = k /\ i' = i /\ pc' = "done"

\* one iteration of `for k, v in row.items()`
Cell == /\ pc = "cell"
        /\ LET v == frame[i][k] IN
           IF v = Missing THEN Advance /\ UNCHANGED <<p, res, outcome>>                      \* continue
           ELSE IF v \notin Kept(k) THEN
                IF ~skip THEN outcome' = "raise" /\ pc' = "done" /\ UNCHANGED <<i, k, p, res>>
                ELSE IF DEV_StaleP
                     THEN IF p = NoP THEN outcome' = "nameerror" /\ pc' = "done" /\ UNCHANGED <<i, k, p, res>>
                          ELSE res' = [res EXCEPT ![i] = @ \cup {p}] /\ Advance /\ UNCHANGED <<p, outcome>>
                     ELSE Advance /\ UNCHANGED <<p, res, outcome>>                           \* nothing is written
           ELSE LET q == Position(k) + Rank(Kept(k), v) IN
                p' = q /\ res' = [res EXCEPT ![i] = @ \cup {q}] /\ Advance /\ UNCHANGED outcome
        /\ UNCHANGED <<cats, remove, skip, frame>>
Return == pc = "done" /\ UNCHANGED vars
Next == Cell \/ Return
Spec == Init /\ [][Next]_vars

-----------------------------------------------------------------------------
(* Requirement *)
Seen(r, c)   == frame[r][c] # Missing /\ frame[r][c] \in Kept(c)
Unseen(r, c) == frame[r][c] # Missing /\ frame[r][c] \notin Kept(c)
AnyUnseen    == \E r \in 1 .. Len(frame), c \in Cols : Unseen(r, c)
\* the indicators row r must carry: exactly its own column=value names
OwnNames(r)  == {<<c, frame[r][c]>> : c \in {d \in Cols : Seen(r, d)}}
RaisesIffUnseenAndStrict == pc = "done" => (outcome = "raise" <=> (AnyUnseen /\ ~skip))
NeverNameError           == outcome # "nameerror"
ExactlyOwnIndicator == (pc = "done" /\ outcome = "ok") =>
                          \A r \in 1 .. Len(frame) : {Schema[q] : q \in res[r]} = OwnNames(r)
InSchema     == \A r \in DOMAIN res : res[r] \subseteq 0 .. Width - 1
\* single = TRUE: value -> its rank among the kept sorted categories (NaN for missing / skipped)
SingleCode(r, c) == IF Seen(r, c) THEN Rank(Kept(c), frame[r][c]) ELSE -1
=============================================================================
