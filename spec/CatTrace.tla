------------------------------ MODULE CatTrace ------------------------------
(* code -> spec for CategoriesToIntegers: one trace = fit(frame A) then transform(frame  *)
(* B) on real object-dtype DataFrames (non-default index, numeric columns around).       *)
(* The cell loop of the specification runs silently from the logged inputs; the single   *)
(* logged event is consumed at pc = "done": exception / no exception, schema, the set of *)
(* indicator cells of every row, single=True codes, numeric pass-through, index.         *)
EXTENDS CatEncode, TraceKit
VARIABLES tid, l
T == Batch[tid]
ToSet(s) == {s[j] : j \in 1 .. Len(s)}
TInit == /\ tid \in 1 .. Len(Batch) /\ l = 1
         /\ cats = [c \in Cols |-> ToSet(Batch[tid].cats[c])]
         /\ remove = {<<cv \div 100, cv % 100>> : cv \in ToSet(Batch[tid].remove)}
         /\ skip = Batch[tid].skip
         /\ frame = Batch[tid].frame
         /\ pc = "cell" /\ i = 1 /\ k = 1 /\ p = NoP
         /\ res = [r \in 1 .. Len(Batch[tid].frame) |-> {}]
         /\ outcome = "ok"
Silent == pc # "done" /\ l = 1 /\ Cell /\ UNCHANGED <<tid, l>>
SchemaCodes == [q \in 1 .. Width |-> Schema[q - 1][1] * 100 + Schema[q - 1][2]]
BadRows == {r \in 1 .. Len(frame) : ~(r \in DOMAIN T.res /\ ToSet(T.res[r]) = res[r])}
\* the user-level reading, on the OBSERVED cells and OBSERVED schema only
ObsNames(r) == {<<T.schema[q + 1] \div 100, T.schema[q + 1] % 100>> : q \in {x \in ToSet(T.res[r]) : x + 1 \in DOMAIN T.schema}}
BadOwn == {r \in 1 .. Len(frame) : ~(r \in DOMAIN T.res /\ ObsNames(r) = OwnNames(r))}
BadSingle == {<<r, c>> \in (1 .. Len(frame)) \X Cols : T.single[r][c] # SingleCode(r, c)}
Observe ==
  /\ pc = "done" /\ l = 1
  /\ Require(T.outcome = outcome, T.id, "RaisesIffUnseenAndStrict", l, [got |-> T.outcome, want |-> outcome])
  /\ Require(T.schema = SchemaCodes, T.id, "SchemaNames", l, [got |-> T.schema, want |-> SchemaCodes])
  /\ (outcome = "ok" /\ T.outcome = "ok") =>
        /\ Require(BadRows = {}, T.id, "ExactlyOwnIndicator", l, [rows |-> BadRows, got |-> T.res, want |-> res])
        /\ Require(BadOwn = {}, T.id, "IndicatorIsOwnName", l, [rows |-> BadOwn])
        /\ Require(T.others_nan, T.id, "NothingElseWritten", l, <<>>)
        /\ Require(T.numeric_ok, T.id, "NumericPassThrough", l, <<>>)
        /\ Require(T.index_ok, T.id, "OrderAndIndexKept", l, <<>>)
  /\ Require(T.single_outcome = outcome, T.id, "SingleRaisesIffUnseenAndStrict", l, [got |-> T.single_outcome])
  /\ (outcome = "ok" /\ T.single_outcome = "ok") =>
        /\ Require(BadSingle = {}, T.id, "SingleIsRank", l, [cells |-> BadSingle, got |-> T.single])
        /\ Require(T.single_rest_ok, T.id, "SingleNumericAndIndexKept", l, <<>>)
  /\ Accepted(T.id)
  /\ l' = 2 /\ UNCHANGED <<vars, tid>>
TNext == Silent \/ Observe
TSpec == TInit /\ [][TNext]_<<vars, tid, l>>
=============================================================================
