------------------------------- MODULE Criterion -------------------------------
(* The compiled split criteria of PiecewiseTreeRegressor:                                *)
(*   _piecewise_tree_regression_common.pyx  (cursor protocol, proxy / improvement)       *)
(*   piecewise_tree_regression_criterion.pyx / _fast.pyx   constant fit  ("const")       *)
(*   piecewise_tree_regression_criterion_linear.pyx        linear fit    ("linear")      *)
(* Data are in POSITION order (position k holds sample samples[k]): integer targets Y,   *)
(* integer weights W, one integer feature X.  All results are exact rationals <<num,den>>*)
(* built from range sums; floating point only enters through the harness projection.     *)
(*                                                                                       *)
(* Mechanism: the cursor (start, pos, end) and the criterion's stored left / right       *)
(* weights wl, wr, which impurity_improvement reads.  Requirement `TripleDetermines`:    *)
(* every query is a function of the triple and the data, never of the call history -     *)
(* which for the stored weights means wl = W[start,pos) and wr = W[pos,end) at all times.*)
EXTENDS Integers, Sequences, FiniteSets, TLC

CONSTANTS MaxN, YVals, WVals, XVals, Kinds,
          DEV_LinearNoUpdateWeights    \* TRUE: the linear criterion has no _update_weights (the defect): wl, wr are
                                       \* refreshed only by proxy_impurity_improvement, and not for an empty side

VARIABLES kind, Y, W, X, start, pos, end, wl, wr
vars == <<kind, Y, W, X, start, pos, end, wl, wr>>
N == Len(Y)

RECURSIVE Sum(_, _, _)
Sum(f, a, b) == IF a >= b THEN 0 ELSE f[a + 1] + Sum(f, a + 1, b)          \* over positions a .. b-1 (0-based)
Prod(f, g) == [k \in DOMAIN f |-> f[k] * g[k]]
SW(a, b)   == Sum(W, a, b)
SWY(a, b)  == Sum(Prod(W, Y), a, b)
SWYY(a, b) == Sum(Prod(W, Prod(Y, Y)), a, b)

Init == /\ kind \in Kinds
        /\ \E n \in 1 .. MaxN : /\ Y \in [1 .. n -> YVals]
                                /\ W \in [1 .. n -> (IF kind = "linear" THEN {1} ELSE WVals)]
                                /\ X \in [1 .. n -> (IF kind = "linear" THEN XVals ELSE {0})]
        /\ start = 0 /\ pos = 0 /\ end = 0 /\ wl = 0 /\ wr = 0

Tracks == ~(kind = "linear" /\ DEV_LinearNoUpdateWeights)       \* does reset/update refresh wl, wr ?
Move(p) == /\ pos' = p
           /\ IF Tracks THEN wl' = SW(start', p) /\ wr' = SW(p, end') ELSE UNCHANGED <<wl, wr>>
\* criterion.init(y, w, W, samples, s, e): pos = start, then reset()
InitRange(s, e) == /\ start' = s /\ end' = e /\ Move(s) /\ UNCHANGED <<kind, Y, W, X>>
Update(p)       == /\ start < end /\ p \in start .. end /\ UNCHANGED <<start, end>> /\ Move(p) /\ UNCHANGED <<kind, Y, W, X>>
Reset           == /\ start < end /\ UNCHANGED <<start, end>> /\ Move(start) /\ UNCHANGED <<kind, Y, W, X>>
ReverseReset    == /\ start < end /\ UNCHANGED <<start, end>> /\ Move(end) /\ UNCHANGED <<kind, Y, W, X>>
\* proxy_impurity_improvement writes the stored weights through _mean, which returns early on an empty range
Proxy == /\ start < end
         /\ wl' = IF start = pos THEN wl ELSE SW(start, pos)
         /\ wr' = IF pos = end THEN wr ELSE SW(pos, end)
         /\ UNCHANGED <<kind, Y, W, X, start, pos, end>>
DoInit   == \E s \in 0 .. N - 1, e \in 1 .. N : s < e /\ InitRange(s, e)
DoUpdate == \E p \in 0 .. N : Update(p)
Next == DoInit \/ DoUpdate \/ Reset \/ ReverseReset \/ Proxy
Spec == Init /\ [][Next]_vars

-----------------------------------------------------------------------------
(* Exact results.  A rational is <<num, den>> with den > 0. *)
\* weighted mean of [a, b)
MeanOf(a, b) == IF a = b \/ SW(a, b) = 0 THEN <<0, 1>> ELSE <<SWY(a, b), SW(a, b)>>
\* weighted mean squared residual of the constant fit:  (SW*SWYY - SWY^2) / SW^2
MseConst(a, b) == IF a = b \/ SW(a, b) = 0 THEN <<0, 1>>
                  ELSE <<SW(a, b) * SWYY(a, b) - SWY(a, b) * SWY(a, b), SW(a, b) * SW(a, b)>>
\* least-squares line y ~ x (unit weights, m = b - a rows): RSS = (Sxx*Syy - Sxy^2) / (m*Sxx)
Ones == [k \in DOMAIN Y |-> 1]
Sxx(a, b) == (b - a) * Sum(Prod(X, X), a, b) - Sum(X, a, b) * Sum(X, a, b)
Sxy(a, b) == (b - a) * Sum(Prod(X, Y), a, b) - Sum(X, a, b) * Sum(Y, a, b)
Syy(a, b) == (b - a) * Sum(Prod(Y, Y), a, b) - Sum(Y, a, b) * Sum(Y, a, b)
FullRank(a, b) == Sxx(a, b) # 0
\* (when the feature is constant on the range the design is rank deficient, but the least-squares RESIDUAL is still
\*  unique: the best line is the constant mean, RSS = Syy / m)
MseLinear(a, b) == IF b - a <= 2 THEN <<0, 1>>                              \* not more rows than coefficients: 0 by the code
                   ELSE IF Sxx(a, b) = 0 THEN <<Syy(a, b), (b - a) * (b - a)>>
                   ELSE <<Sxx(a, b) * Syy(a, b) - Sxy(a, b) * Sxy(a, b), (b - a) * (b - a) * Sxx(a, b)>>
Mse(a, b) == IF kind = "linear" THEN MseLinear(a, b) ELSE MseConst(a, b)
\* what C09 claims: every range for the constant fit; for the linear fit the ranges with MORE rows than coefficients (two
\* here: slope and intercept) - what a criterion reports for a shorter range is its own business (0 in the current code)
Claimed(a, b) == SW(a, b) > 0 /\ (kind # "linear" \/ b - a > 2)

NodeValue    == MeanOf(start, end)
NodeImpurity == Mse(start, end)
LeftImpurity == Mse(start, pos)
RightImpurity == Mse(pos, end)
\* proxy = - wr * right - wl * left   (NaN at the boundaries)
ProxyDefined == pos # start /\ pos # end
ProxyValue == LET l == LeftImpurity  r == RightImpurity IN
              <<-(SW(pos, end) * r[1] * l[2] + SW(start, pos) * l[1] * r[2]), l[2] * r[2]>>
\* Rationals are kept small: a/b + c/d, scaling, and normal form
Abs(x) == IF x < 0 THEN -x ELSE x
RECURSIVE GCD(_, _)
GCD(a, b) == IF b = 0 THEN a ELSE GCD(b, a % b)
Norm(r) == IF r[1] = 0 THEN <<0, 1>> ELSE LET g == GCD(Abs(r[1]), r[2]) IN <<r[1] \div g, r[2] \div g>>
Add(r, q) == Norm(<<r[1] * q[2] + q[1] * r[2], r[2] * q[2]>>)
Scale(k, r) == Norm(<<k * r[1], r[2]>>)
Over(r, k) == Norm(<<r[1], r[2] * k>>)
\* improvement(parent, left, right) = Wnode/Wtot * (parent - WR/Wnode*right - WL/Wnode*left)
\*                                  = (Wnode*parent - WR*right - WL*left) / Wtot
ImprovementWith(a, b, wtot) == Over(Add(Scale(SW(start, end), Norm(NodeImpurity)),
                                        Add(Scale(-b, Norm(RightImpurity)), Scale(-a, Norm(LeftImpurity)))), wtot)
Improvement(wtot)       == ImprovementWith(SW(start, pos), SW(pos, end), wtot)      \* with the TRUE side weights
ImprovementStored(wtot) == ImprovementWith(wl, wr, wtot)                            \* with the STORED weights (the code)
ProxyNorm == Add(Scale(-SW(pos, end), Norm(RightImpurity)), Scale(-SW(start, pos), Norm(LeftImpurity)))

WeightsCurrent == start < end => (wl = SW(start, pos) /\ wr = SW(pos, end))
TripleDetermines == start < end => ImprovementStored(SW(0, N)) = Improvement(SW(0, N))
\* a theorem of the constant fit (variance decomposition): splitting never increases the weighted impurity
SplitNeverHurts == (kind = "const" /\ start < end) => Improvement(SW(0, N))[1] >= 0
MseNonNegative == start < end => (Claimed(start, end) => NodeImpurity[1] >= 0)
=============================================================================
