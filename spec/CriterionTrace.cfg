SPECIFICATION TSpec
CONSTANTS MaxN = 0
 YVals = {}
 WVals = {}
 XVals = {}
 Kinds = {}
 DEV_LinearNoUpdateWeights = FALSE
CHECK_DEADLOCK FALSE
