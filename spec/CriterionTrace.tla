----------------------------- MODULE CriterionTrace -----------------------------
(* code -> spec for the compiled criteria, driven through the module's _test_criterion_* *)
(* accessors.  kind "cursor": a history of init / update / reset / proxy calls and        *)
(* queries on one criterion object; each call is one event and one step of Criterion     *)
(* (Tracks = TRUE: the intended mechanism); each query result is projected by the        *)
(* harness to the nearest rational with denominator <= 10^6 (rejected as unprojectable   *)
(* beyond 1e-9) and must equal the specification's exact value in normal form.           *)
(* kind "leaf": PiecewiseTreeRegressor.predict for one row, with the training rows that  *)
(* share its leaf (from tree_.apply): per-leaf least squares ('mselin') or mean.         *)
EXTENDS Criterion, TraceKit
VARIABLES tid, l
T   == Batch[tid]
NEv == Len(T.ev)
Ev  == T.ev[l]
TInit == /\ tid \in 1 .. Len(Batch) /\ l = 1
         /\ kind = Batch[tid].ckind /\ Y = Batch[tid].Y /\ W = Batch[tid].W /\ X = Batch[tid].X
         /\ start = 0 /\ pos = 0 /\ end = 0 /\ wl = 0 /\ wr = 0
Go == l' = l + 1 /\ UNCHANGED tid
Is(a) == l <= NEv /\ Ev.a = a
Val(v) == <<v[1], v[2]>>
Q(name, want, claimed) == /\ Require(~claimed \/ (Ev.ok /\ Val(Ev.v) = Norm(want)), T.id, name, l,
                                     [got |-> Ev.v, want |-> Norm(want), triple |-> <<start, pos, end>>])
                          /\ UNCHANGED vars /\ Go
TInitEv == Is("init") /\ Ev.s < Ev.e /\ Ev.e <= N /\ InitRange(Ev.s, Ev.e) /\ Go
TUpdate == Is("update") /\ Update(Ev.p) /\ Go
TReset == Is("reset") /\ Reset /\ Go
TRReset == Is("rreset") /\ ReverseReset /\ Go
TValue == Is("q_value") /\ start < end /\ Q("NodeValueIsWeightedMean", NodeValue, SW(start, end) > 0)
TImp == Is("q_impurity") /\ start < end /\ Q("ImpurityIsMSE", NodeImpurity, Claimed(start, end))
TLeft == Is("q_left") /\ start < end /\ Q("ChildrenImpurity", LeftImpurity, Claimed(start, pos))
TRight == Is("q_right") /\ start < end /\ Q("ChildrenImpurity", RightImpurity, Claimed(pos, end))
TProxy == /\ Is("q_proxy") /\ start < end
          /\ IF ProxyDefined
             THEN Require(~(Claimed(start, pos) /\ Claimed(pos, end)) \/ (Ev.ok /\ Val(Ev.v) = ProxyNorm), T.id, "ProxyImprovement", l,
                          [got |-> Ev.v, want |-> ProxyNorm, triple |-> <<start, pos, end>>])
             ELSE Require(Ev.nan, T.id, "ProxyImprovement", l, [got |-> Ev.v, want |-> "nan"])
          /\ Proxy /\ Go
\* impurity_improvement(node impurity, left, right) as the splitter calls it
TImprove == Is("q_improvement") /\ start < end
            /\ Q("TripleDetermines", Improvement(Ev.wtot), Claimed(start, end) /\ Claimed(start, pos) /\ Claimed(pos, end))

\* ---- per-leaf prediction
LeafN == Len(T.lx)
SumS(f) == Sum(f, 0, Len(f))
LeafMean == <<SumS(T.ly), LeafN>>
LSxx == LeafN * SumS(Prod(T.lx, T.lx)) - SumS(T.lx) * SumS(T.lx)
LSxy == LeafN * SumS(Prod(T.lx, T.ly)) - SumS(T.lx) * SumS(T.ly)
\* y(x) = mean_y + Sxy/Sxx * (x - mean_x) = (SumY*Sxx + Sxy*(n*x - SumX)) / (n*Sxx)
LeafLine(x) == <<SumS(T.ly) * LSxx + LSxy * (LeafN * x - SumS(T.lx)), LeafN * LSxx>>
TLeaf == /\ Is("leaf")
         /\ Require(LeafN >= T.msl, T.id, "MinSamplesLeaf", l, [leaf_size |-> LeafN, min_samples_leaf |-> T.msl])
         /\ Require(Ev.depth <= T.max_depth, T.id, "MaxDepth", l, [depth |-> Ev.depth])
         /\ IF T.criterion = "mselin"
            THEN Require(LSxx = 0 \/ LeafN <= 2 \/ (Ev.ok /\ Val(Ev.v) = Norm(LeafLine(Ev.x))), T.id, "LeafLeastSquares", l,
                         [got |-> Ev.v, want |-> IF LSxx = 0 THEN <<0, 0>> ELSE Norm(LeafLine(Ev.x)), x |-> Ev.x])
            ELSE Require(Ev.ok /\ Val(Ev.v) = Norm(LeafMean), T.id, "LeafMean", l, [got |-> Ev.v, want |-> Norm(LeafMean)])
         /\ UNCHANGED vars /\ Go
TDone == /\ l = NEv + 1 /\ Accepted(T.id) /\ l' = NEv + 2 /\ UNCHANGED <<vars, tid>>
Logged == TInitEv \/ TUpdate \/ TReset \/ TRReset \/ TValue \/ TImp \/ TLeft \/ TRight \/ TProxy \/ TImprove \/ TLeaf
Stuck == /\ l >= 1 /\ l <= NEv /\ ~ENABLED Logged
         /\ Rejected(T.id, l, [triple |-> <<start, pos, end>>, event |-> Ev]) /\ l' = 0 /\ UNCHANGED <<vars, tid>>
TNext == l >= 1 /\ (Logged \/ TDone \/ Stuck)
TSpec == TInit /\ [][TNext]_<<vars, tid, l>>
=============================================================================
