SPECIFICATION TSpec
CONSTANTS MaxBins = 100000
CHECK_DEADLOCK FALSE
