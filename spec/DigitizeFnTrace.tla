--------------------------- MODULE DigitizeFnTrace ---------------------------
(* code -> spec for digitize2tree, independent of HOW the tree is built: the trace is    *)
(* the finished scikit-learn tree (children, thresholds as positions of bin edges,       *)
(* node values) and its predictions on every query class 1 .. 2n+1 (even = on an edge,   *)
(* odd = between / beyond).  The specification routes every class through the node       *)
(* table itself and compares with Digitize - numpy.digitize(x, bins, right=True) as      *)
(* stated in DigitizeTree - so "the tree computes digitize for every x" is decided here  *)
(* for any construction whose thresholds are bin edges (a tree is piecewise constant     *)
(* between its thresholds, so the classes are exhaustive).                               *)
EXTENDS DigitizeTree, TraceKit
VARIABLES tid, l
T == Batch[tid]
TInit == /\ tid \in 1 .. Len(Batch) /\ l = 1
         /\ n = Batch[tid].n /\ asc = Batch[tid].asc
         /\ pc = "done" /\ stack = <<>> /\ nodes = <<>>
NodeIds == 0 .. Len(T.left) - 1
\* well-formed binary tree: every non-root node has exactly one parent with a smaller ... (any numbering) and no cycle:
\* the depth of the walk is bounded by the number of nodes
RECURSIVE RouteT(_, _, _)
RouteT(k, x, fuel) == IF fuel = 0 THEN -1
                      ELSE IF T.left[k + 1] < 0 THEN T.values[k + 1]
                      ELSE IF x <= 2 * (T.th[k + 1] + 1) THEN RouteT(T.left[k + 1], x, fuel - 1)
                                                         ELSE RouteT(T.right[k + 1], x, fuel - 1)
Fn(x) == RouteT(0, x, Len(T.left) + 1)
Observe == /\ l = 1
           /\ Require(\A k \in NodeIds : T.left[k + 1] < 0 \/ (T.left[k + 1] \in NodeIds /\ T.right[k + 1] \in NodeIds /\ T.th[k + 1] \in 0 .. n - 1),
                      T.id, "TreeWellFormed", l, [left |-> T.left, right |-> T.right, th |-> T.th])
           /\ Require(T.pred = [x \in Queries |-> Fn(x)], T.id, "TreeDecisionFunction", l,
                      [sklearn_predict |-> T.pred, node_table |-> [x \in Queries |-> Fn(x)]])
           /\ Require([x \in Queries |-> Fn(x)] = [x \in Queries |-> Digitize(x)], T.id, "IsDigitize", l,
                      [tree |-> [x \in Queries |-> Fn(x)], digitize |-> [x \in Queries |-> Digitize(x)]])
           /\ Require(T.numpy = [x \in Queries |-> Digitize(x)], T.id, "SpecDigitizeIsNumpy", l, [got |-> T.numpy])
           /\ Accepted(T.id)
           /\ l' = 2 /\ UNCHANGED <<vars, tid>>
TSpec == TInit /\ [][Observe]_<<vars, tid, l>>
=============================================================================
