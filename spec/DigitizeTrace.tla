---------------------------- MODULE DigitizeTrace ----------------------------
(* code -> spec for digitize2tree.  Events: one per tree_add_node call (recorded by      *)
(* wrapping the module global the code looks up), then "final" with tree_.value, the     *)
(* tree's prediction and numpy.digitize on every query class.  Each add event must be    *)
(* the node the specification's next action creates.                                     *)
EXTENDS DigitizeTree, TraceKit
VARIABLES tid, l
T == Batch[tid]
NEv == Len(T.ev)
TInit == /\ tid \in 1 .. Len(Batch) /\ l = 1
         /\ n = Batch[tid].n /\ asc = Batch[tid].asc
         /\ pc = "root" /\ stack = <<>> /\ nodes = <<>>
Same(nd, e) == e.a = "add" /\ e.parent = nd.parent /\ e.left = nd.left /\ e.leaf = nd.leaf /\ e.th = nd.th
Add == /\ l >= 1 /\ pc \in {"root", "nodes"} /\ (AddRoot \/ AddNode)
       /\ IF Len(nodes') > Len(nodes)
          THEN IF l < NEv /\ Same(nodes'[Len(nodes')], T.ev[l]) THEN l' = l + 1
               ELSE Rejected(T.id, l, [want |-> nodes'[Len(nodes')], got |-> IF l <= NEv THEN T.ev[l] ELSE [a |-> "none"]]) /\ l' = -1
          ELSE Rejected(T.id, l, [want |-> "NotImplementedError in the model"]) /\ l' = -1
       /\ UNCHANGED tid
Fin == /\ l >= 1 /\ pc = "nodes" /\ Finish /\ UNCHANGED <<tid, l>>
Final == /\ l >= 1 /\ pc = "done"
         /\ IF l # NEv \/ T.ev[l].a # "final"
            THEN Rejected(T.id, l, [want |-> "final", got |-> IF l <= NEv THEN T.ev[l] ELSE [a |-> "none"]]) /\ l' = -1
            ELSE LET e == T.ev[l] IN
                 /\ Require(e.values = [k \in DOMAIN nodes |-> nodes[k].val], T.id, "NodeValues", l, [got |-> e.values])
                 /\ Require(e.pred = [x \in Queries |-> Eval(x)], T.id, "TreeDecisionFunction", l, [got |-> e.pred])
                 /\ Require(e.pred = [x \in Queries |-> Digitize(x)], T.id, "IsDigitize", l, [got |-> e.pred])
                 /\ Require(e.numpy = [x \in Queries |-> Digitize(x)], T.id, "SpecDigitizeIsNumpy", l, [got |-> e.numpy])
                 /\ Accepted(T.id) /\ l' = NEv + 1
         /\ UNCHANGED <<vars, tid>>
TNext == (Add \/ Fin \/ Final) /\ l <= NEv
TSpec == TInit /\ [][TNext]_<<vars, tid, l>>
=============================================================================
