---------------------------- MODULE DigitizeTree ----------------------------
(* mlinsights/mltree/tree_digitize.py digitize2tree(bins, right=True).                   *)
(* Bins are abstracted to their positions: bin b (0-based) has value 2(b+1); queries are *)
(* x in 1..2n+1 (even = on an edge, odd = strictly between / beyond edges), which is     *)
(* every case numpy.digitize distinguishes for a strictly monotonic array.               *)
(* Mechanism: add_root, then the recursion add_nodes(parent, i, j, is_left) with its     *)
(* five cases, as an explicit stack machine - one action per tree_add_node call, in the  *)
(* order the code makes them; descending bins = reverse + value remap.                   *)
(* Requirement: Eval(x) = numpy.digitize(x, bins, right=True).                           *)
EXTENDS Integers, Sequences, FiniteSets, TLC

CONSTANTS MaxBins

Unused == -1     \* numpy.nan in tree_.value of a split node
NoTh   == -1     \* threshold argument 0 of a leaf

VARIABLES n, asc,         \* the call: number of bins, direction
          pc, stack,      \* stack of pending add_nodes frames <<parent, i, j, is_left>>
          nodes           \* nodes[k+1] = node k : [parent, left, leaf, th (bin index), val]
vars == <<n, asc, pc, stack, nodes>>

Node(p, lf, leaf, t, v) == [parent |-> p, left |-> lf, leaf |-> leaf, th |-> t, val |-> v]

Init == /\ n \in 1 .. MaxBins /\ asc \in BOOLEAN
        /\ (n = 1 => asc)          \* a single edge has no direction: numpy and the code treat it as ascending
        /\ pc = "root" /\ stack = <<>> /\ nodes = <<>>

\* index = len(bins) // 2 ; add_root(index) ; add_nodes(0, 0, index, True) ; add_nodes(0, index, n, False)
AddRoot == /\ pc = "root"
           /\ LET index == n \div 2 IN
              /\ nodes' = <<Node(-1, FALSE, FALSE, index, Unused)>>
              /\ stack' = <<<<0, 0, index, TRUE>>, <<0, index, n, FALSE>>>>   \* head = next call
           /\ pc' = "nodes" /\ UNCHANGED <<n, asc>>

\* one call of add_nodes = one tree_add_node; the two recursive calls are pushed (left first)
AddNode == /\ pc = "nodes" /\ stack # <<>>
           /\ LET f == Head(stack)  par == f[1]  i == f[2]  j == f[3]  isl == f[4]
                  me == Len(nodes)
                  rest == Tail(stack)
              IN IF isl /\ i = j THEN
                     /\ nodes' = Append(nodes, Node(par, isl, TRUE, NoTh, i)) /\ stack' = rest /\ pc' = "nodes"
                 ELSE IF isl /\ i + 1 = j THEN
                     /\ nodes' = Append(nodes, Node(par, isl, FALSE, i, Unused))
                     /\ stack' = <<<<me, i, i, TRUE>>, <<me, i, j, FALSE>>>> \o rest /\ pc' = "nodes"
                 ELSE IF ~isl /\ i + 1 = j THEN
                     /\ nodes' = Append(nodes, Node(par, isl, TRUE, NoTh, j)) /\ stack' = rest /\ pc' = "nodes"
                 ELSE IF i + 1 < j THEN
                     /\ LET index == (i + j) \div 2 IN
                        /\ nodes' = Append(nodes, Node(par, isl, FALSE, index, Unused))
                        /\ stack' = <<<<me, i, index, TRUE>>, <<me, index, j, FALSE>>>> \o rest
                     /\ pc' = "nodes"
                 ELSE /\ pc' = "notimplemented" /\ UNCHANGED <<nodes, stack>>   \* raise NotImplementedError
           /\ UNCHANGED <<n, asc>>

\* descending bins: cl.tree_.value[i] = n - cl.tree_.value[i]  (NaN stays NaN)
Finish == /\ pc = "nodes" /\ stack = <<>>
          /\ nodes' = IF asc THEN nodes
                      ELSE [k \in DOMAIN nodes |-> IF nodes[k].val = Unused THEN nodes[k]
                                                   ELSE [nodes[k] EXCEPT !.val = n - nodes[k].val]]
          /\ pc' = "done" /\ UNCHANGED <<n, asc, stack>>
Return == pc \in {"done", "notimplemented"} /\ UNCHANGED vars

Next == AddRoot \/ AddNode \/ Finish \/ Return
Spec == Init /\ [][Next]_vars

-----------------------------------------------------------------------------
(* The decision function of the produced tree.  The tree is always built on ascending    *)
(* positions; for descending bins the caller's bin b sits at ascending position n-1-b.   *)
Child(k, lf) == CHOOSE c \in 0 .. Len(nodes) - 1 : nodes[c + 1].parent = k /\ nodes[c + 1].left = lf
HasChild(k, lf) == \E c \in 0 .. Len(nodes) - 1 : nodes[c + 1].parent = k /\ nodes[c + 1].left = lf
RECURSIVE Walk(_, _)
Walk(k, x) == IF nodes[k + 1].leaf THEN nodes[k + 1].val
              ELSE IF x <= 2 * (nodes[k + 1].th + 1) THEN Walk(Child(k, TRUE), x) ELSE Walk(Child(k, FALSE), x)
Eval(x) == Walk(0, x)

\* numpy.digitize(x, bins, right=True): ascending  -> #{b : bins[b] < x}; descending -> #{b : bins[b] >= x}
\* (the ascending view of descending bins has the same value multiset 2,4,..,2n)
Digitize(x) == IF asc THEN Cardinality({b \in 0 .. n - 1 : 2 * (b + 1) < x})
               ELSE Cardinality({b \in 0 .. n - 1 : 2 * (b + 1) >= x})

Queries == 1 .. 2 * n + 1
IsDigitize   == pc = "done" => \A x \in Queries : Eval(x) = Digitize(x)
AllCasesHandled == pc # "notimplemented"
WellFormed   == pc = "done" =>
                  /\ \A k \in 0 .. Len(nodes) - 1 :
                        IF nodes[k + 1].leaf THEN ~HasChild(k, TRUE) /\ ~HasChild(k, FALSE)
                        ELSE /\ Cardinality({c \in 0 .. Len(nodes) - 1 : nodes[c + 1].parent = k /\ nodes[c + 1].left}) = 1
                             /\ Cardinality({c \in 0 .. Len(nodes) - 1 : nodes[c + 1].parent = k /\ ~nodes[c + 1].left}) = 1
                  /\ \A k \in 1 .. Len(nodes) - 1 : nodes[k + 1].parent < k       \* parents are created first
\* every output value 0..n is produced by some leaf (the code may create unreachable duplicates)
LeavesCoverBins == pc = "done" =>
                  \A v \in 0 .. n : Cardinality({k \in DOMAIN nodes : nodes[k].leaf /\ nodes[k].val = v}) >= 1
=============================================================================
