------------------------------ MODULE KMediansL1 ------------------------------
(* mlinsights/mlmodel/kmeans_l1.py  KMeansL1L2(norm='L1'): _kmeans_single_lloyd,          *)
(* _labels_inertia (E step, Manhattan), _centers_dense (M step, coordinate-wise median,  *)
(* relocation of empty clusters), best-of tracking, the convergence test as the code     *)
(* computes it (for 'L1' _tolerance returns sum_j mean_i |X_ij| and ignores tol), the     *)
(* final E step.  Coordinates are doubled so that medians of even counts stay integers.  *)
EXTENDS Integers, Sequences, FiniteSets, TLC

CONSTANTS Lattice,              \* coordinate values (even integers)
          Dim, MaxPts, MaxK, MaxIter,
          StopRule,             \* "code": stop when n*shift <= sum|X| (what _tolerance('L1') computes, ignoring tol)
                                \* "any":  stop after any iteration (the property must not depend on the rule)
          DEV_EmptyClusterNaN   \* TRUE: the median of an empty cluster overwrites the relocated centre (NaN)

NaN == <<-999>>                 \* a centre that is not a number
Coords == 1 .. Dim
Pts == [Coords -> Lattice]

VARIABLES X, K, centers, labels, dist, inertia, best, iter, shift, pc
vars == <<X, K, centers, labels, dist, inertia, best, iter, shift, pc>>
N == Len(X)

Abs(x) == IF x < 0 THEN -x ELSE x
RECURSIVE SumF(_, _)
SumF(f, S) == IF S = {} THEN 0 ELSE LET a == CHOOSE a \in S : TRUE IN f[a] + SumF(f, S \ {a})
Man(p, c) == SumF([j \in Coords |-> Abs(p[j] - c[j])], Coords)
PtLeq(p, q) == \/ p = q \/ \E j \in Coords : p[j] < q[j] /\ \A h \in 1 .. j - 1 : p[h] = q[h]

Init == /\ \E n \in 1 .. MaxPts : /\ X \in [1 .. n -> Pts]
                                  /\ \A a \in 1 .. n - 1 : PtLeq(X[a], X[a + 1])      \* data sets up to reordering
        /\ K \in 1 .. MaxK
        /\ K <= Cardinality({X[a] : a \in DOMAIN X})        \* the property's premise: >= k distinct points
        /\ centers \in [1 .. K -> Pts]                      \* init=<array>: any initial centres
        /\ labels = <<>> /\ dist = <<>> /\ inertia = 0
        /\ best = [labels |-> <<>>, centers |-> <<>>, inertia |-> -1]
        /\ iter = 0 /\ shift = 0 /\ pc = "E"

\* E step: first index of a Manhattan-nearest centre
MinD(cs, p)   == LET ds == {Man(p, cs[c]) : c \in DOMAIN cs} IN CHOOSE d \in ds : \A e \in ds : d <= e
Nearest(cs, p) == CHOOSE c \in DOMAIN cs : Man(p, cs[c]) = MinD(cs, p) /\ \A e \in 1 .. c - 1 : Man(p, cs[e]) # MinD(cs, p)
LabelsOf(cs)  == [a \in DOMAIN X |-> Nearest(cs, X[a])]
DistOf(cs)    == [a \in DOMAIN X |-> MinD(cs, X[a])]
HasNaN(cs)    == \E c \in DOMAIN cs : cs[c] = NaN

EStep == /\ pc = "E"
         /\ IF HasNaN(centers) THEN pc' = "raise" /\ UNCHANGED <<labels, dist, inertia>>     \* ValueError: Input contains NaN
            ELSE /\ labels' = LabelsOf(centers) /\ dist' = DistOf(centers)
                 /\ inertia' = SumF(DistOf(centers), DOMAIN X) /\ pc' = "M"
         /\ UNCHANGED <<X, K, centers, best, iter, shift>>

\* coordinate-wise median of the points of a cluster (numpy.median: midpoint of the two middle values)
SortedVals(S, j) == LET RECURSIVE Srt(_)
                        Srt(T) == IF T = {} THEN <<>>
                                  ELSE LET m == CHOOSE a \in T : \A b \in T : X[a][j] < X[b][j] \/ (X[a][j] = X[b][j] /\ a <= b)
                                       IN <<X[m][j]>> \o Srt(T \ {m})
                    IN Srt(S)
Median(S, j) == LET s == SortedVals(S, j)  m == Len(s)
                IN IF m % 2 = 1 THEN s[(m + 1) \div 2] ELSE (s[m \div 2] + s[m \div 2 + 1]) \div 2
Members(c)   == {a \in DOMAIN X : labels[a] = c}
Empty        == {c \in 1 .. K : Members(c) = {}}
\* far_from_centers = distances.argsort()[::-1]: the i-th empty cluster takes the i-th farthest point (ties open).
\* A relocation r maps every empty cluster to a point index.
EmptyRank(c) == Cardinality({e \in Empty : e < c}) + 1
ValidReloc(r) ==
   /\ \A c1, c2 \in Empty : c1 < c2 => (r[c1] # r[c2] /\ dist[r[c1]] >= dist[r[c2]])
   /\ \A q \in DOMAIN X : (q \notin {r[c] : c \in Empty}) => \A c \in Empty : dist[q] <= dist[r[c]]
MStepWith(r) ==
   /\ pc = "M"
   /\ centers' = [c \in 1 .. K |->
                    IF Members(c) # {} THEN [j \in Coords |-> Median(Members(c), j)]
                    ELSE IF DEV_EmptyClusterNaN THEN NaN ELSE X[r[c]]]
   /\ pc' = "T" /\ UNCHANGED <<X, K, labels, dist, inertia, best, iter, shift>>
MStep == pc = "M" /\ \E r \in [Empty -> DOMAIN X] : ValidReloc(r) /\ MStepWith(r)

\* best-of tracking, centre shift, convergence test, loop
Shift(old, new) == IF HasNaN(new) THEN 1 ELSE SumF([c \in 1 .. K |-> Man(old[c], new[c])], 1 .. K)
SumAbsX == SumF([a \in DOMAIN X |-> SumF([j \in Coords |-> Abs(X[a][j])], Coords)], DOMAIN X)
Track(old) == /\ pc = "T"
              /\ best' = IF best.inertia = -1 \/ inertia < best.inertia
                         THEN [labels |-> labels, centers |-> centers, inertia |-> inertia] ELSE best
              /\ shift' = Shift(old, centers)
              /\ iter' = iter + 1
              /\ IF iter + 1 >= MaxIter THEN pc' = "F"
                 ELSE IF StopRule = "code" THEN pc' = IF N * Shift(old, centers) <= SumAbsX THEN "F" ELSE "E"
                 ELSE pc' \in {"F", "E"}
              /\ UNCHANGED <<X, K, centers, labels, dist, inertia>>
\* the centres the E step of this iteration used are recoverable: they produced `labels`; keep them explicitly
VARIABLE old
TrackStep == Track(old)
Final == /\ pc = "F"
         /\ IF shift > 0
            THEN IF HasNaN(best.centers) THEN pc' = "raise" /\ UNCHANGED best
                 ELSE /\ best' = [best EXCEPT !.labels = LabelsOf(best.centers),
                                               !.inertia = SumF(DistOf(best.centers), DOMAIN X)]
                      /\ pc' = "done"
            ELSE pc' = "done" /\ UNCHANGED best
         /\ UNCHANGED <<X, K, centers, labels, dist, inertia, iter, shift>>
Return == pc \in {"done", "raise"} /\ UNCHANGED vars

allvars == <<vars, old>>
FullInit == Init /\ old = centers
DoE == EStep /\ old' = centers
DoM == MStep /\ UNCHANGED old
DoTrack == TrackStep /\ UNCHANGED old
DoFinal == Final /\ UNCHANGED old
DoReturn == Return /\ UNCHANGED old
FullNext == DoE \/ DoM \/ DoTrack \/ DoFinal \/ DoReturn
Spec == FullInit /\ [][FullNext]_allvars

-----------------------------------------------------------------------------
FitSucceeds  == pc # "raise"
NearestLabel == pc = "done" => \A a \in DOMAIN X : Man(X[a], best.centers[best.labels[a]]) = MinD(best.centers, X[a])
InertiaIsSum == pc = "done" => best.inertia = SumF([a \in DOMAIN X |-> Man(X[a], best.centers[best.labels[a]])], DOMAIN X)
CentresInBox == pc = "done" => \A c \in 1 .. K : \A j \in Coords :
                   /\ \E a \in DOMAIN X : X[a][j] <= best.centers[c][j]
                   /\ \E a \in DOMAIN X : X[a][j] >= best.centers[c][j]
=============================================================================
