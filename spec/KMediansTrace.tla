----------------------------- MODULE KMediansTrace -----------------------------
(* code -> spec for KMeansL1L2(norm='L1').fit: the module globals _labels_inertia and    *)
(* _centers_dense are wrapped by the harness, so each E step and each M step the code    *)
(* performs is one event (arguments and results, coordinates doubled to integers).       *)
(* Every event must be the specification's next step from the logged initial centres;    *)
(* best-of tracking / the convergence test run as silent steps; the relocation of an     *)
(* empty cluster is bound to the logged centre (it must be *a* farthest point).          *)
(* Last event: result {labels_, cluster_centers_, inertia_, predict/transform on probes} *)
(* or raised {err}.                                                                      *)
EXTENDS KMediansL1, TraceKit
VARIABLES tid, l
T   == Batch[tid]
NEv == Len(T.ev)
Ev  == T.ev[l]
tv  == <<allvars, tid, l>>
Pt(s)  == [j \in Coords |-> s[j]]
PtSeq(ss) == [c \in 1 .. Len(ss) |-> IF ss[c][1] = -999 THEN NaN ELSE Pt(ss[c])]
\* kind "lloyd": the whole trajectory of one run (n_init = 1)
\* kind "final": only what fit returned (several inits, string init modes): the return-state requirements
\* kind "l2":    norm='L2' against scikit-learn's KMeans (an equality the specification evaluates, not explains)
TInit == /\ tid \in 1 .. Len(Batch) /\ l = 1
         /\ X = [a \in 1 .. Len(Batch[tid].X) |-> Pt(Batch[tid].X[a])]
         /\ K = Batch[tid].k
         /\ centers = PtSeq(Batch[tid].init) /\ old = PtSeq(Batch[tid].init)
         /\ labels = <<>> /\ dist = <<>> /\ inertia = 0
         /\ best = IF Batch[tid].kind = "final"
                   THEN LET r == Batch[tid].ev[1] IN
                        [labels |-> [a \in 1 .. Len(r.labels) |-> r.labels[a] + 1], centers |-> PtSeq(r.centers), inertia |-> r.inertia]
                   ELSE [labels |-> <<>>, centers |-> <<>>, inertia |-> -1]
         /\ iter = 0 /\ shift = 0 /\ pc = IF Batch[tid].kind = "final" THEN "done" ELSE "E"
Go == l' = l + 1 /\ UNCHANGED tid
Lab(s) == [a \in 1 .. Len(s) |-> s[a] + 1]
Is(a) == l <= NEv /\ Ev.a = a

SilentTrack == pc = "T" /\ DoTrack /\ UNCHANGED <<tid, l>>
\* Whether the code re-runs the E step on the best centres before returning is observable (an E event or none).
\* The trace specification accepts both and lets the REQUIREMENTS decide on what was returned, so that an
\* implementation that always (or never needlessly) recomputes is not rejected for its shape.
SilentFinal == /\ pc = "F" /\ pc' = "done"
               /\ UNCHANGED <<X, K, centers, labels, dist, inertia, best, iter, shift, old, tid, l>>

\* With StopRule = "any" the specification branches after every iteration (continue / stop); the centres the E step
\* was called with tell which branch the code took, so they are part of the GUARDS (a branch the code did not take
\* simply dies), never a reported failure.
GE1 == Is("E") /\ pc = "E" /\ PtSeq(Ev.centers) = centers
TE1 == /\ GE1 /\ DoE
       /\ Require(pc' = "M", T.id, "FitSucceeds", l, [centres |-> centers])
       /\ (pc' = "M") => /\ Require(Lab(Ev.labels) = labels', T.id, "EStepLabelsNearest", l, [got |-> Ev.labels, want |-> labels'])
                         /\ Require(Ev.inertia = inertia', T.id, "EStepInertia", l, [got |-> Ev.inertia, want |-> inertia'])
       /\ Go
GE2 == Is("E") /\ pc = "F" /\ PtSeq(Ev.centers) = best.centers /\ ~HasNaN(best.centers)
TE2 == /\ GE2
       /\ best' = [best EXCEPT !.labels = LabelsOf(best.centers), !.inertia = SumF(DistOf(best.centers), DOMAIN X)]
       /\ pc' = "done" /\ UNCHANGED <<X, K, centers, labels, dist, inertia, iter, shift, old>>
       /\ (pc' = "done") => /\ Require(Lab(Ev.labels) = best'.labels, T.id, "EStepLabelsNearest", l, [got |-> Ev.labels, want |-> best'.labels])
                            /\ Require(Ev.inertia = best'.inertia, T.id, "EStepInertia", l, [got |-> Ev.inertia, want |-> best'.inertia])
       /\ Go
\* the M step with the relocation choice bound to what the code returned: the centre of the r-th empty cluster
\* must be a data point whose distance is the r-th largest one (per-cluster check; linear in the data size)
DescDist == SortSeq(dist, LAMBDA a, b : a > b)
PointAt(c) == {q \in DOMAIN X : X[q] = PtSeq(Ev.centers)[c] /\ dist[q] = DescDist[EmptyRank(c)]}
LoggedReloc == [c \in Empty |-> CHOOSE q \in PointAt(c) : TRUE]
GM == /\ Is("M") /\ pc = "M" /\ Len(Ev.centers) = K
      /\ \A c \in 1 .. K : IF Members(c) # {} THEN PtSeq(Ev.centers)[c] = [j \in Coords |-> Median(Members(c), j)]
                            ELSE PointAt(c) # {}
TM == GM /\ MStepWith(LoggedReloc) /\ UNCHANGED old /\ Go
\* an M step that is not a behaviour of the specification is reported with what was expected, and adopted
\* (so that the rest of the trace is still checked against the code's own centres)
GMbad == Is("M") /\ pc = "M" /\ ~GM
TMbad == /\ GMbad
         /\ Failed(T.id, IF \E c \in 1 .. Len(Ev.centers) : Ev.centers[c][1] = -999 THEN "EmptyClusterRelocated" ELSE "MStepIsMedian",
                   l, [got |-> Ev.centers, empty |-> Empty,
                       medians |-> [c \in 1 .. K |-> IF Members(c) # {} THEN [j \in Coords |-> Median(Members(c), j)] ELSE <<>>]])
         /\ centers' = PtSeq(Ev.centers) /\ pc' = "T"
         /\ UNCHANGED <<X, K, labels, dist, inertia, best, iter, shift, old>> /\ Go
\* which branch (continue / stop, recompute / not) the code took is settled by what it returned: guards again
GResult == /\ Is("result") /\ pc = "done" /\ l = NEv
           /\ PtSeq(Ev.centers) = best.centers /\ Lab(Ev.labels) = best.labels /\ Ev.inertia = best.inertia
BadPred == {q \in 1 .. Len(Ev.probes) : Man(Pt(Ev.probes[q].x), best.centers[Ev.probes[q].pred + 1]) # MinD(best.centers, Pt(Ev.probes[q].x))}
BadTrans == {q \in 1 .. Len(Ev.probes) : Ev.probes[q].dists # [c \in 1 .. K |-> Man(Pt(Ev.probes[q].x), best.centers[c])]}
TResult == /\ GResult
           /\ Require(NearestLabel, T.id, "NearestLabel", l, <<>>)
           /\ Require(InertiaIsSum, T.id, "InertiaIsSum", l, <<>>)
           /\ Require(CentresInBox, T.id, "CentresInBox", l, [centres |-> best.centers])
           /\ Require(BadPred = {}, T.id, "PredictIsNearest", l, [probes |-> BadPred])
           /\ Require(BadTrans = {}, T.id, "TransformIsManhattan", l, [probes |-> BadTrans])
           /\ Accepted(T.id) /\ UNCHANGED allvars /\ Go
GL2 == Is("l2") /\ l = NEv
TL2 == /\ GL2
       /\ Require(Ev.eq_labels /\ Ev.eq_centers /\ Ev.eq_inertia /\ Ev.eq_predict /\ Ev.eq_transform, T.id, "L2IsKMeans", l, Ev)
       /\ Accepted(T.id) /\ UNCHANGED allvars /\ Go
GRaised == Is("raised") /\ l = NEv
TRaised == /\ GRaised /\ Failed(T.id, "FitSucceeds", l, [err |-> Ev.err, centres |-> centers, pc |-> pc])
           /\ Accepted(T.id) /\ UNCHANGED allvars /\ Go
AnyGuard == GE1 \/ GE2 \/ GM \/ GMbad \/ GResult \/ GRaised \/ GL2
SilentEnabled == pc = "T" \/ pc = "F"
Stuck == /\ l >= 1 /\ l <= NEv /\ ~AnyGuard /\ ~SilentEnabled
         /\ Rejected(T.id, l, [pc |-> pc, iter |-> iter, shift |-> shift, event |-> Ev.a, centres |-> centers, best |-> best.centers,
                                got |-> IF "centers" \in DOMAIN Ev THEN Ev.centers ELSE <<>>])
         /\ l' = 0 /\ UNCHANGED <<allvars, tid>>
TNext == /\ l >= 1 /\ l <= NEv
         /\ (TE1 \/ TE2 \/ TM \/ TMbad \/ TResult \/ TRaised \/ TL2 \/ SilentTrack \/ SilentFinal \/ Stuck)
TSpec == TInit /\ [][TNext]_tv
=============================================================================
