------------------------------- MODULE Lifecycle -------------------------------
(* The life cycle of a scikit-learn style estimator object, as the properties C01-C04    *)
(* see it: constructor parameters (get_params / set_params / clone), fit that succeeds   *)
(* or raises at some point, predict / transform, pickle, re-fit.                         *)
(*                                                                                       *)
(* Abstract state per object o:                                                          *)
(*   params[o]   key |-> value           what get_params reports                         *)
(*   model[o]    <<>> or the SIGNATURE <<parameters, data, seed>> the fitted model     *)
(*               is a function of                                                        *)
(*   cache[o]    state a fit may leave behind (neighbour index, vocabulary, ...)         *)
(* A fitted model answers a row with Out(signature, row): equal signatures must give     *)
(* equal outputs, whatever happened to the objects before.                               *)
(* Mechanism of the two anchored temporary-parameter swaps (ConstraintKMeans.fit halves  *)
(* max_iter around the inner KMeans.fit; PiecewiseTreeRegressor.fit replaces `criterion` *)
(* by an object around the inner tree fit): Save, Overwrite, Inner (may raise), Restore. *)
EXTENDS Integers, Sequences, FiniteSets, TLC

CONSTANTS Objs, Keys, Vals, Datas, Seeds, BadData,
          DEV_NoRestoreOnRaise,    \* TRUE: the temporary parameter is restored on the success path only
          DEV_ReplaceStore,        \* TRUE: set_params replaces the whole store by the given keys (SkBase.set_params)
          DEV_StaleCache           \* TRUE: a fit keeps (and later uses) what an earlier fit cached

Tmp == "tmp"                       \* the temporary value written into key TempKey during a fit
TempKey == CHOOSE k \in Keys : TRUE

VARIABLES params, model, cache, live, pc, saved, cur
vars == <<params, model, cache, live, pc, saved, cur>>

Init == /\ live = {CHOOSE o \in Objs : TRUE}
        /\ params \in [Objs -> [Keys -> Vals]]
        /\ model = [o \in Objs |-> <<>>] /\ cache = [o \in Objs |-> "none"]
        /\ pc = "idle" /\ saved = "none" /\ cur = <<>>

Idle == pc = "idle"
\* set_params(**kv): exactly the given keys change
SetParams(o, kv) == /\ Idle /\ o \in live
                    /\ params' = [params EXCEPT ![o] = IF DEV_ReplaceStore
                                                      THEN [k \in Keys |-> IF k \in DOMAIN kv THEN kv[k] ELSE CHOOSE v \in Vals : TRUE]
                                                      ELSE [k \in Keys |-> IF k \in DOMAIN kv THEN kv[k] ELSE params[o][k]]]
                    /\ UNCHANGED <<model, cache, live, pc, saved, cur>>
\* clone(o): a new unfitted object with equal parameters
Clone(o, o2) == /\ Idle /\ o \in live /\ o2 \notin live
                /\ live' = live \cup {o2} /\ params' = [params EXCEPT ![o2] = params[o]]
                /\ model' = [model EXCEPT ![o2] = <<>>] /\ cache' = [cache EXCEPT ![o2] = "none"]
                /\ UNCHANGED <<pc, saved, cur>>
\* fit(o, data, seed) in four steps
FitBegin(o, d, s) == /\ Idle /\ o \in live /\ pc' = "save" /\ cur' = <<o, d, s>> /\ UNCHANGED <<params, model, cache, live, saved>>
Save == /\ pc = "save" /\ saved' = params[cur[1]][TempKey] /\ pc' = "overwrite" /\ UNCHANGED <<params, model, cache, live, cur>>
Overwrite == /\ pc = "overwrite" /\ params' = [params EXCEPT ![cur[1]][TempKey] = Tmp] /\ pc' = "inner"
             /\ UNCHANGED <<model, cache, live, saved, cur>>
Restored == [params EXCEPT ![cur[1]][TempKey] = saved]
InnerOk == /\ pc = "inner" /\ cur[2] \notin BadData
           /\ params' = Restored
           /\ model' = [model EXCEPT ![cur[1]] =
                          <<Restored[cur[1]], IF DEV_StaleCache /\ cache[cur[1]] # "none" THEN cache[cur[1]] ELSE cur[2], cur[3]>>]
           /\ cache' = [cache EXCEPT ![cur[1]] = IF cache[cur[1]] = "none" THEN cur[2] ELSE @]
           /\ pc' = "idle" /\ UNCHANGED <<live, saved, cur>>
InnerRaise == /\ pc = "inner" /\ cur[2] \in BadData
              /\ params' = IF DEV_NoRestoreOnRaise THEN params ELSE Restored
              /\ pc' = "idle" /\ UNCHANGED <<model, cache, live, saved, cur>>

Next == \/ \E o \in Objs, k \in Keys, v \in Vals : SetParams(o, (k :> v))
        \/ \E o, o2 \in Objs : Clone(o, o2)
        \/ \E o \in Objs, d \in Datas, s \in Seeds : FitBegin(o, d, s)
        \/ Save \/ Overwrite \/ InnerOk \/ InnerRaise
Spec == Init /\ [][Next]_vars

-----------------------------------------------------------------------------
\* C02: nothing but set_params changes what get_params reports (evaluated when no call is in progress)
ParamsStableAcrossFit == [][(pc = "inner" /\ pc' = "idle") => params'[cur[1]] = [params[cur[1]] EXCEPT ![TempKey] = saved]]_vars
NoTempLeft == Idle => \A o \in live : params[o][TempKey] # Tmp
\* C03 / C02: a fitted model is a function of its own parameters, the LAST training set and the seed only
SignatureUsesLastData == [][(pc = "inner" /\ pc' = "idle" /\ model'[cur[1]] # model[cur[1]]) => model'[cur[1]][2] = cur[2]]_vars
\* C01
SetExact == [][\A o \in Objs, k \in Keys, v \in Vals : SetParams(o, (k :> v)) =>
                  (params'[o][k] = v /\ \A k2 \in Keys \ {k} : params'[o][k2] = params[o][k2])]_vars
CloneEq == [][\A o, o2 \in Objs : Clone(o, o2) => (params'[o2] = params[o] /\ model'[o2] = <<>>)]_vars
=============================================================================
