SPECIFICATION TSpec
CHECK_DEADLOCK FALSE
