----------------------------- MODULE LifecycleTrace -----------------------------
(* code -> spec for the object life cycle (C01, C02, C03, C04, C15): one trace is a       *)
(* history of calls on a few real estimator objects (handles h).  The state mirrors      *)
(* module Lifecycle:                                                                     *)
(*   view[h]     what get_params(deep=True) reports, canonicalised (key |-> token)        *)
(*   fitted[h]   <<>> or the signature [view, data, seed] of the last successful fit      *)
(*   memo        <<signature, method, row>> |-> output id : first observation defines it, *)
(*               every later one - on any object, batch, order, after pickling - agrees   *)
(* Events (each is the return, normal or exceptional, of one public call):               *)
(*   new, set, clone, crossfeed      the parameter protocol                    (C01)      *)
(*   call                            fit / predict / transform / score         (C02)      *)
(*   obs, copy                       outputs row by row; pickle / clone-with-fitted (C03, C04) *)
EXTENDS Integers, Sequences, FiniteSets, TraceKit
VARIABLES tid, l, view, fitted, memo
T   == Batch[tid]
NEv == Len(T.ev)
Ev  == T.ev[l]
vars == <<tid, l, view, fitted, memo>>
ToSet(s) == {s[j] : j \in 1 .. Len(s)}
Empty == [x \in {} |-> ""]
TInit == /\ tid \in 1 .. Len(Batch) /\ l = 1
         /\ view = [h \in {} |-> Empty] /\ fitted = [h \in {} |-> <<>>] /\ memo = [k \in {} |-> 0]
Go == l' = l + 1 /\ UNCHANGED tid
Is(a) == l <= NEv /\ Ev.a = a
Put(f, k, v) == [x \in DOMAIN f \cup {k} |-> IF x = k THEN v ELSE f[x]]
Diff(a, b) == {k \in DOMAIN a \cup DOMAIN b : k \notin DOMAIN a \/ k \notin DOMAIN b \/ a[k] # b[k]}
Known(h) == h \in DOMAIN view

\* ---- C01
TNew == /\ Is("new")
        /\ Require(\A k \in DOMAIN Ev.given : k \in DOMAIN Ev.view /\ Ev.view[k] = Ev.given[k], T.id, "ConstructorArgsReported", l,
                   [missing |-> {k \in DOMAIN Ev.given : k \notin DOMAIN Ev.view \/ Ev.view[k] # Ev.given[k]}])
        /\ view' = Put(view, Ev.h, Ev.view) /\ fitted' = Put(fitted, Ev.h, <<>>) /\ UNCHANGED memo /\ Go
\* exactly the given keys change; a key that holds an estimator replaces the subtree below it
Items == Ev.items
SetKeys == {Items[j].key : j \in 1 .. Len(Items)}
UnderKeys == UNION {ToSet(Items[j].under) : j \in 1 .. Len(Items)}
SubKeys == UNION {DOMAIN Items[j].sub : j \in 1 .. Len(Items)}
ApplySet(v) == [k \in ((DOMAIN v \ UnderKeys) \cup SetKeys \cup SubKeys) |->
                  IF k \in SetKeys THEN Items[CHOOSE j \in 1 .. Len(Items) : Items[j].key = k].val
                  ELSE IF k \in SubKeys THEN Items[CHOOSE j \in 1 .. Len(Items) : k \in DOMAIN Items[j].sub].sub[k]
                  ELSE v[k]]
TSet == /\ Is("set") /\ Known(Ev.h)
        /\ Require(~Ev.raised, T.id, "SetParamsAcceptsAdvertisedKey", l, [keys |-> SetKeys, err |-> Ev.err])
        /\ Require(Ev.raised \/ Ev.ret_self, T.id, "SetParamsReturnsSelf", l, [keys |-> SetKeys])
        /\ Require(Ev.raised \/ Ev.view = ApplySet(view[Ev.h]), T.id, "SetExact", l,
                   [keys |-> SetKeys, differ |-> Diff(Ev.view, ApplySet(view[Ev.h])),
                    got |-> [k \in Diff(Ev.view, ApplySet(view[Ev.h])) \cap DOMAIN Ev.view |-> Ev.view[k]]])
        /\ view' = [view EXCEPT ![Ev.h] = Ev.view] /\ UNCHANGED <<fitted, memo>> /\ Go
TClone == /\ Is("clone") /\ Known(Ev.h)
          /\ Require(~Ev.raised, T.id, "CloneWorks", l, [err |-> Ev.err])
          /\ Require(Ev.raised \/ Ev.view = view[Ev.h], T.id, "CloneEq", l, [differ |-> Diff(Ev.view, view[Ev.h])])
          /\ Require(Ev.raised \/ ~Ev.fitted, T.id, "CloneUnfitted", l, <<>>)
          /\ IF Ev.raised THEN UNCHANGED <<view, fitted>>
             ELSE view' = Put(view, Ev.h2, Ev.view) /\ fitted' = Put(fitted, Ev.h2, <<>>)
          /\ UNCHANGED memo /\ Go
TCross == /\ Is("crossfeed") /\ Known(Ev.h) /\ Known(Ev.h2)
          /\ Require(~Ev.raised, T.id, "SetParamsAcceptsAdvertisedKey", l, [err |-> Ev.err])
          /\ Require(Ev.raised \/ Ev.ret_self, T.id, "SetParamsReturnsSelf", l, <<>>)
          /\ Require(Ev.raised \/ Ev.view = view[Ev.h], T.id, "CrossFeedEq", l, [differ |-> Diff(Ev.view, view[Ev.h])])
          /\ view' = [view EXCEPT ![Ev.h2] = Ev.view] /\ UNCHANGED <<fitted, memo>> /\ Go
\* ---- C02
TCall == /\ Is("call") /\ Known(Ev.h)
         /\ Require(Ev.view = view[Ev.h], T.id, "ParamsStable", l,
                    [kind |-> Ev.kind, outcome |-> Ev.outcome, differ |-> Diff(Ev.view, view[Ev.h]),
                     got |-> [k \in Diff(Ev.view, view[Ev.h]) \cap DOMAIN Ev.view |-> Ev.view[k]]])
         /\ Require(Ev.data_same, T.id, "DataImmutable", l, [kind |-> Ev.kind, outcome |-> Ev.outcome])
         /\ Require((Ev.kind = "fit" /\ Ev.outcome = "ok") => Ev.ret_self, T.id, "FitReturnsSelf", l, <<>>)
         /\ Require(Ev.expect_ok => Ev.outcome = "ok", T.id, "CallSucceeds", l, [kind |-> Ev.kind, err |-> Ev.err])
         /\ fitted' = IF Ev.kind = "fit" /\ Ev.outcome = "ok"
                      THEN [fitted EXCEPT ![Ev.h] = [view |-> view[Ev.h], data |-> Ev.data, seed |-> Ev.seed]]
                      ELSE fitted
         /\ view' = [view EXCEPT ![Ev.h] = Ev.view] /\ UNCHANGED memo /\ Go
\* ---- C03 / C04
Pairs == {<<Ev.rows[j][1], Ev.rows[j][2]>> : j \in 1 .. Len(Ev.rows)}
KeyOf(r) == <<fitted[Ev.h], Ev.method, r>>
Clash == {p \in Pairs : KeyOf(p[1]) \in DOMAIN memo /\ memo[KeyOf(p[1])] # p[2]}
SelfClash == {p \in Pairs : \E q \in Pairs : q[1] = p[1] /\ q[2] # p[2]}
TObs == /\ Is("obs") /\ Known(Ev.h) /\ fitted[Ev.h] # <<>>
        /\ Require(Clash = {} /\ SelfClash = {}, T.id, Ev.clause, l,
                   [method |-> Ev.method, note |-> Ev.note, rows |-> {p[1] : p \in Clash \cup SelfClash}])
        /\ memo' = [k \in DOMAIN memo \cup {KeyOf(p[1]) : p \in Pairs} |->
                      IF k \in DOMAIN memo THEN memo[k] ELSE (CHOOSE p \in Pairs : KeyOf(p[1]) = k)[2]]
        /\ UNCHANGED <<view, fitted>> /\ Go
TCopy == /\ Is("copy") /\ Known(Ev.h)
         /\ Require(~Ev.raised, T.id, "CopyWorks", l, [how |-> Ev.how, err |-> Ev.err])
         /\ IF Ev.raised THEN UNCHANGED <<view, fitted>>
            ELSE view' = Put(view, Ev.h2, view[Ev.h]) /\ fitted' = Put(fitted, Ev.h2, fitted[Ev.h])
         /\ UNCHANGED memo /\ Go
TDone == /\ l = NEv + 1 /\ Accepted(T.id) /\ l' = NEv + 2 /\ UNCHANGED <<tid, view, fitted, memo>>
Logged == TNew \/ TSet \/ TClone \/ TCross \/ TCall \/ TObs \/ TCopy
Stuck == /\ l >= 1 /\ l <= NEv /\ ~(Ev.a \in {"new", "set", "clone", "crossfeed", "call", "obs", "copy"} /\
                                     (Ev.a = "new" \/ (Known(Ev.h) /\ (Ev.a # "obs" \/ fitted[Ev.h] # <<>>)
                                                        /\ (Ev.a # "crossfeed" \/ Known(Ev.h2)))))
         /\ Rejected(T.id, l, [event |-> Ev.a, known |-> DOMAIN view]) /\ l' = 0 /\ UNCHANGED <<tid, view, fitted, memo>>
TNext == l >= 1 /\ (Logged \/ TDone \/ Stuck)
TSpec == TInit /\ [][TNext]_vars
=============================================================================
