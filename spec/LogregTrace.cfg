SPECIFICATION TSpec
CONSTANTS MaxRows = 0
 MaxDepthParam = {}
 Msl = {}
 Mss = {}
 MwNum = 0
 MwDen = 1
 DEV_PathUsesGE = FALSE
CHECK_DEADLOCK FALSE
