------------------------------ MODULE LogregTrace ------------------------------
(* code -> spec for DecisionTreeLogisticRegression (hook H2).                            *)
(* Events of fit, in the order the code emits them:                                      *)
(*   dtlr_enter {index, depth, n}                  a node starts fitting                 *)
(*   dtlr_split {index, n_above, n_below, ncls_*}  its rows are divided                  *)
(*   dtlr_exit  {index, reason, above, below, last}                                      *)
(* each must be the step of the specification's stack machine (Above / Below decide by   *)
(* the guard alone and run silently).  Then                                              *)
(*   fitted {n_nodes, depth, leaves}                                                     *)
(*   row {cmp, pid, p1ge, path, proba, label}   one probe row: per node the comparison   *)
(*        of ITS classifier's probability with ITS threshold (-1/0/1), the id of that    *)
(*        probability vector and whether p1 >= 0.5; what decision_path, predict_proba    *)
(*        and predict returned.  The walk itself is done by the specification.           *)
EXTENDS LogregTree, TraceKit
VARIABLES tid, l
T   == Batch[tid]
NEv == Len(T.ev)
Ev  == T.ev[l]
tv  == <<vars, tid, l>>
\* kind "hook":  the fit is followed node by node (events above); the tree is the one the stack machine builds.
\* kind "final": no fit events; the tree is the FINISHED object as the harness walked it (tree: idx, above, below, depth
\*               with the root at depth 1; objs = number of node objects; n_nodes_ as reported) - what the property
\*               demands is decided on it, however the tree was grown.
Final == Batch[tid].kind = "final"
TreeOf(tr) == [v \in {tr[j].idx : j \in 1 .. Len(tr)} |->
                 LET j == CHOOSE j \in 1 .. Len(tr) : tr[j].idx = v
                 IN [depth |-> tr[j].depth, n |-> 0, above |-> tr[j].above, below |-> tr[j].below]]
TInit == /\ tid \in 1 .. Len(Batch) /\ l = 1
         /\ total = Batch[tid].n /\ maxd = Batch[tid].max_depth /\ msl = Batch[tid].msl /\ mss = Batch[tid].mss
         /\ IF Final
            THEN /\ stack = <<>> /\ nodes = TreeOf(Batch[tid].tree) /\ created = Batch[tid].objs
                 /\ ret = Batch[tid].n_nodes - 1 /\ pc = "done"
            ELSE stack = <<Frame(0, 1, Batch[tid].n)>> /\ nodes = <<>> /\ created = 0 /\ ret = None /\ pc = "run"
Is(a) == l <= NEv /\ Ev.a = a
Go == l' = l + 1 /\ UNCHANGED tid
StateOK == IndicesDistinct /\ DepthBound /\ ChildDepth
Check == Require(StateOK', T.id, "TreeInvariant", l, [nodes |-> nodes'])

\* the min_weight_fraction_leaf of the trace (num/den) replaces the module constants in the guard
TGuard(c, ns, nn) == c > 1 /\ nn > 2 * msl /\ ns * T.mw_den >= 2 * T.mw_num * total /\ ns < total

GEnter == Is("dtlr_enter") /\ pc = "run" /\ stack # <<>> /\ Top.stage = "enter"
          /\ Ev.index = Top.idx /\ Ev.depth = Top.depth /\ Ev.n = Top.n
TEnter == GEnter /\ Enter /\ Check /\ Go
GSplit == Is("dtlr_split") /\ pc = "run" /\ stack # <<>> /\ Top.stage = "split" /\ Ev.index = Top.idx
          /\ Ev.n_above + Ev.n_below = Top.n /\ Ev.ncls_above \in 0 .. 2 /\ Ev.ncls_below \in 0 .. 2
TSplit == GSplit /\ SplitWith(Ev.n_above, Ev.ncls_above, Ev.ncls_below) /\ Go
\* Above / Below with the trace's weight fraction
SilentAbove == /\ pc = "run" /\ stack # <<>> /\ Top.stage = "above"
               /\ IF TGuard(Top.cA, Top.nA, Top.n)
                  THEN stack' = Append(SetTop([Top EXCEPT !.stage = "waitA"]), Frame(Top.idx + 1, Top.depth + 1, Top.nA)) /\ UNCHANGED ret
                  ELSE stack' = SetTop([Top EXCEPT !.stage = "below"]) /\ ret' = Top.idx + 1
               /\ UNCHANGED <<total, maxd, msl, mss, nodes, created, pc, tid, l>>
SilentBelow == /\ pc = "run" /\ stack # <<>> /\ Top.stage = "below"
               /\ IF TGuard(Top.cB, Top.nB, Top.n)
                  THEN stack' = Append(SetTop([Top EXCEPT !.stage = "waitB"]), Frame(ret + 1, Top.depth + 1, Top.nB)) /\ UNCHANGED ret
                  ELSE stack' = SetTop([Top EXCEPT !.stage = "exit"]) /\ ret' = ret + 1
               /\ UNCHANGED <<total, maxd, msl, mss, nodes, created, pc, tid, l>>
GExit == Is("dtlr_exit") /\ pc = "run" /\ stack # <<>> /\ Top.stage = "exit" /\ Ev.index = Top.idx
TExit == /\ GExit /\ Exit
         /\ Require(Ev.last = ret, T.id, "IndexAllocation", l, [got |-> Ev.last, want |-> ret])
         /\ Require(Ev.reason = "split" => (Ev.above = nodes[Top.idx].above /\ Ev.below = nodes[Top.idx].below),
                    T.id, "ChildrenCreatedIffGuard", l, [got |-> <<Ev.above, Ev.below>>, want |-> nodes[Top.idx]])
         /\ Require((Ev.reason # "split") = (Top.depth + 1 > maxd \/ Top.n < mss), T.id, "EarlyReturn", l, [reason |-> Ev.reason])
         /\ Check /\ Go
GFitted == Is("fitted") /\ pc = "done"
TFitted == /\ GFitted
           /\ Require(Ev.n_nodes = NNodes, T.id, "NNodes", l, [got |-> Ev.n_nodes, want |-> NNodes])
           /\ Require(IndicesBelowN, T.id, "IndicesBelowN", l, [ids |-> Ids, n_nodes |-> NNodes])
           /\ Require(IndicesDistinct, T.id, "IndicesDistinct", l, [ids |-> Ids, objects |-> created])
           /\ Require(Ev.depth = TreeDepth /\ Ev.depth <= maxd, T.id, "DepthBound", l, [got |-> Ev.depth, want |-> TreeDepth])
           /\ Require({Ev.leaves[q] : q \in 1 .. Len(Ev.leaves)} = Leaves, T.id, "LeavesAreTerminals", l, [got |-> Ev.leaves, want |-> Leaves])
           /\ UNCHANGED vars /\ Go
\* one probe row
RowS == [v \in Ids |-> Ev.cmp[v + 1]]
GRow == Is("row") /\ pc = "done"
TRow == /\ GRow
        /\ LET path == ProbaPath(RowS)  term == path[Len(path)] IN
           /\ Require({Ev.path[q] : q \in 1 .. Len(Ev.path)} = {path[q] : q \in 1 .. Len(path)}, T.id, "PathIsRootToTerminal", l,
                      [got |-> Ev.path, want |-> path])
           /\ Require(Ev.proba = Ev.pid[term + 1], T.id, "ProbaIsTerminalNodes", l, [terminal |-> term, got |-> Ev.proba, want |-> Ev.pid[term + 1]])
           /\ Require(Ev.label = (IF Ev.p1ge[term + 1] THEN 1 ELSE 0), T.id, "PredictIsThreshold", l, [terminal |-> term, got |-> Ev.label])
           /\ Require(Ev.sums_to_one, T.id, "RowsSumToOne", l, <<>>)
        /\ UNCHANGED vars /\ Go
TDone == /\ l = NEv + 1 /\ pc = "done" /\ Accepted(T.id) /\ l' = NEv + 2 /\ UNCHANGED <<vars, tid>>
GRaised == Is("raised")
TRaised == GRaised /\ Failed(T.id, "FitSucceeds", l, [err |-> Ev.err]) /\ UNCHANGED vars /\ Go
AnyGuard == GEnter \/ GSplit \/ GExit \/ GFitted \/ GRow \/ GRaised
SilentEnabled == pc = "run" /\ stack # <<>> /\ Top.stage \in {"above", "below"}
Stuck == /\ l >= 1 /\ l <= NEv /\ ~AnyGuard /\ ~SilentEnabled
         /\ Rejected(T.id, l, [top |-> IF stack # <<>> THEN Top ELSE <<>>, ret |-> ret, pc |-> pc, event |-> Ev])
         /\ l' = 0 /\ UNCHANGED <<vars, tid>>
TNext == /\ l >= 1
         /\ (TEnter \/ TSplit \/ SilentAbove \/ SilentBelow \/ TExit \/ TFitted \/ TRow \/ TRaised \/ TDone \/ Stuck)
TSpec == TInit /\ [][TNext]_tv
=============================================================================
