------------------------------ MODULE LogregTree ------------------------------
(* mlinsights/mlmodel/decision_tree_logreg.py  DecisionTreeLogisticRegression.           *)
(* Mechanism: the recursion _DecisionTreeLogisticRegressionNode.fit as an explicit stack *)
(* machine with the code's index allocation (`above` is offered index+1, `below` is      *)
(* offered last+1, a side that is not created still consumes the index it was offered),  *)
(* the two early returns (depth, min_samples_split) and the four-conjunct creation guard.*)
(* The outcome of a node's split (how many rows and how many classes on each side) is    *)
(* unconstrained: the model covers every data set and every base estimator.              *)
(* The three separately coded traversals (predict_proba, decision_path,                  *)
(* enumerate_leaves_index) are operators over the finished tree; a row is abstracted to  *)
(* the comparison of its node probability with the threshold at every node               *)
(* (-1 below, 0 equal, 1 above).                                                         *)
EXTENDS Integers, Sequences, FiniteSets, TLC

CONSTANTS MaxRows, MaxDepthParam, Msl, Mss,      \* sets of values for the hyper-parameters
          MwNum, MwDen,                          \* min_weight_fraction_leaf = MwNum / MwDen
          DEV_PathUsesGE                         \* TRUE: decision_path compares with >= where predict_proba uses >

None == -1
VARIABLES total, maxd, msl, mss,      \* the call
          stack,                      \* frames [idx, depth, n, stage, nA, nB, cA, cB]
          nodes,                      \* idx |-> [depth, n, above, below]
          created,                    \* number of node objects created
          ret,                        \* the `last` index returned by the call that just completed
          pc
vars == <<total, maxd, msl, mss, stack, nodes, created, ret, pc>>

Frame(i, d, n) == [idx |-> i, depth |-> d, n |-> n, stage |-> "enter", nA |-> 0, nB |-> 0, cA |-> 0, cB |-> 0]
Top == stack[Len(stack)]
SetTop(f) == [stack EXCEPT ![Len(stack)] = f]
Pop == SubSeq(stack, 1, Len(stack) - 1)

Init == /\ total \in 2 .. MaxRows /\ maxd \in MaxDepthParam /\ msl \in Msl /\ mss \in Mss
        /\ stack = <<Frame(0, 1, total)>> /\ nodes = <<>> /\ created = 0 /\ ret = None /\ pc = "run"

\* the creation guard of _fit_side.  NB: the code tests `above_below.shape[0] > min_samples_leaf * 2` where
\* above_below is the boolean MASK over the node's rows, i.e. the size nn of the node, not the size ns of the side.
\* The property (C10) says nothing about leaf sizes, so the model follows the code here.
Guard(c, ns, nn) == /\ c > 1 /\ nn > 2 * msl /\ ns * MwDen >= 2 * MwNum * total /\ ns < total

AddNode(f) == (f.idx :> [depth |-> f.depth, n |-> f.n, above |-> None, below |-> None]) @@ nodes

\* start of node.fit: the estimator is trained, then the two early returns
Enter == /\ pc = "run" /\ stack # <<>> /\ Top.stage = "enter"
         /\ nodes' = AddNode(Top) /\ created' = created + 1
         /\ IF Top.depth + 1 > maxd \/ Top.n < mss
            THEN stack' = SetTop([Top EXCEPT !.stage = "exit"]) /\ ret' = Top.idx
            ELSE stack' = SetTop([Top EXCEPT !.stage = "split"]) /\ UNCHANGED ret
         /\ UNCHANGED <<total, maxd, msl, mss, pc>>
\* above = prob[:, 1] > threshold: any division of the node's rows, any number of classes on each side
SplitWith(nA, cA, cB) ==
         /\ pc = "run" /\ stack # <<>> /\ Top.stage = "split"
         /\ nA \in 0 .. Top.n
         /\ cA \in (IF nA = 0 THEN {0} ELSE IF nA = 1 THEN {1} ELSE {1, 2})
         /\ cB \in (IF Top.n - nA = 0 THEN {0} ELSE IF Top.n - nA = 1 THEN {1} ELSE {1, 2})
         /\ stack' = SetTop([Top EXCEPT !.stage = "above", !.nA = nA, !.nB = Top.n - nA, !.cA = cA, !.cB = cB])
         /\ UNCHANGED <<total, maxd, msl, mss, nodes, created, ret, pc>>
Split == pc = "run" /\ stack # <<>> /\ Top.stage = "split" /\ \E nA \in 0 .. Top.n, cA \in 0 .. 2, cB \in 0 .. 2 : SplitWith(nA, cA, cB)
\* self.above, last = _fit_side(self.index + 1, ...)
Above == /\ pc = "run" /\ stack # <<>> /\ Top.stage = "above"
         /\ IF Guard(Top.cA, Top.nA, Top.n)
            THEN stack' = Append(SetTop([Top EXCEPT !.stage = "waitA"]), Frame(Top.idx + 1, Top.depth + 1, Top.nA)) /\ UNCHANGED ret
            ELSE stack' = SetTop([Top EXCEPT !.stage = "below"]) /\ ret' = Top.idx + 1       \* return None, index
         /\ UNCHANGED <<total, maxd, msl, mss, nodes, created, pc>>
\* self.below, last = _fit_side(last + 1, ...)
Below == /\ pc = "run" /\ stack # <<>> /\ Top.stage = "below"
         /\ IF Guard(Top.cB, Top.nB, Top.n)
            THEN stack' = Append(SetTop([Top EXCEPT !.stage = "waitB"]), Frame(ret + 1, Top.depth + 1, Top.nB)) /\ UNCHANGED ret
            ELSE stack' = SetTop([Top EXCEPT !.stage = "exit"]) /\ ret' = ret + 1
         /\ UNCHANGED <<total, maxd, msl, mss, nodes, created, pc>>
\* return from node.fit: the parent records the child and continues
Exit == /\ pc = "run" /\ stack # <<>> /\ Top.stage = "exit"
        /\ IF Len(stack) = 1 THEN stack' = <<>> /\ pc' = "done" /\ UNCHANGED nodes
           ELSE LET par == stack[Len(stack) - 1] IN
                IF par.stage = "waitA"
                THEN /\ nodes' = [nodes EXCEPT ![par.idx].above = Top.idx]
                     /\ stack' = [Pop EXCEPT ![Len(stack) - 1] = [par EXCEPT !.stage = "below"]] /\ UNCHANGED pc
                ELSE /\ nodes' = [nodes EXCEPT ![par.idx].below = Top.idx]
                     /\ stack' = [Pop EXCEPT ![Len(stack) - 1] = [par EXCEPT !.stage = "exit"]] /\ UNCHANGED pc
        /\ UNCHANGED <<total, maxd, msl, mss, created, ret>>
Return == pc = "done" /\ UNCHANGED vars
Next == Enter \/ Split \/ Above \/ Below \/ Exit \/ Return
Spec == Init /\ [][Next]_vars

-----------------------------------------------------------------------------
NNodes == ret + 1                                         \* n_nodes_ = tree_.fit(...) + 1
Ids == DOMAIN nodes
IndicesDistinct == Cardinality(Ids) = created
IndicesBelowN   == pc = "done" => \A v \in Ids : v >= 0 /\ v < NNodes
DepthBound      == \A v \in Ids : nodes[v].depth <= maxd
ChildDepth      == \A v \in Ids : /\ (nodes[v].above # None => nodes[nodes[v].above].depth = nodes[v].depth + 1)
                                  /\ (nodes[v].below # None => nodes[nodes[v].below].depth = nodes[v].depth + 1)

(* traversals of the finished tree; s[v] \in {-1, 0, 1} compares the row's probability with the threshold at v *)
IsAbove(cmp, ge) == IF ge THEN cmp >= 0 ELSE cmp > 0
NextNode(v, s, ge) == IF IsAbove(s[v], ge) THEN nodes[v].above ELSE nodes[v].below
RECURSIVE Walk(_, _, _)
Walk(v, s, ge) == IF NextNode(v, s, ge) = None THEN <<v>> ELSE <<v>> \o Walk(NextNode(v, s, ge), s, ge)
ProbaPath(s)    == Walk(0, s, FALSE)                       \* predict_proba: above = prob > threshold
DecisionPath(s) == Walk(0, s, DEV_PathUsesGE)              \* decision_path
Terminal(s)     == LET p == ProbaPath(s) IN p[Len(p)]
\* enumerate_leaves_index: nodes with a missing child
Leaves          == {v \in Ids : nodes[v].above = None \/ nodes[v].below = None}
Rows            == [Ids -> {-1, 0, 1}]
PathIsProbaPath == pc = "done" => \A s \in Rows : DecisionPath(s) = ProbaPath(s)
PathStartsAtRoot == pc = "done" => \A s \in Rows : DecisionPath(s)[1] = 0
LeavesAreTerminals == pc = "done" => Leaves = {Terminal(s) : s \in Rows}
TreeDepth == LET ds == {nodes[v].depth : v \in Ids} IN CHOOSE d \in ds : \A e \in ds : d >= e
=============================================================================
