----------------------------- MODULE MC_CatEncode -----------------------------
EXTENDS CatEncode, Json
SetSeq(S) == LET RECURSIVE F(_) F(T) == IF T = {} THEN <<>> ELSE LET m == CHOOSE x \in T : \A y \in T : x <= y IN <<m>> \o F(T \ {m}) IN F(S)
MCRemoves == {{}, {<<1, 1>>}, {<<2, 2>>}}
Emit == pc = "done" =>
   PrintT(ToJson([cats |-> [c \in Cols |-> SetSeq(cats[c])], remove |-> SetSeq({cv[1] * 100 + cv[2] : cv \in remove}),
                  skip |-> skip, frame |-> frame, outcome |-> outcome,
                  schema |-> [q \in 1 .. Width |-> Schema[q - 1][1] * 100 + Schema[q - 1][2]],
                  res |-> [r \in 1 .. Len(frame) |-> SetSeq(res[r])],
                  single |-> [r \in 1 .. Len(frame) |-> [c \in Cols |-> SingleCode(r, c)]]]))
=============================================================================
