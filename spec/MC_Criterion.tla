----------------------------- MODULE MC_Criterion -----------------------------
EXTENDS Criterion
KConst == {"const"}
KLinear == {"linear"}
KBoth == {"const", "linear"}
=============================================================================
