--------------------------- MODULE MC_DigitizeTree ---------------------------
EXTENDS DigitizeTree, Json
Emit == pc = "done" => PrintT(ToJson([n |-> n, asc |-> asc, nodes |-> nodes,
                                     pred |-> [x \in Queries |-> Eval(x)]]))
=============================================================================
