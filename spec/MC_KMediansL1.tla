----------------------------- MODULE MC_KMediansL1 -----------------------------
EXTENDS KMediansL1, Json
Emit == (pc = "E" /\ iter = 0) =>
   PrintT(ToJson([X |-> [a \in DOMAIN X |-> [j \in Coords |-> X[a][j]]], k |-> K,
                  init |-> [c \in 1 .. K |-> [j \in Coords |-> centers[c][j]]]]))
OnlyInit == pc = "E" /\ iter = 0
=============================================================================
