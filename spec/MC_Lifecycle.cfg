SPECIFICATION Spec
CONSTANTS Objs <- MCObjs
 Keys <- MCKeys
 Vals <- MCVals
 Datas <- MCDatas
 Seeds <- MCSeeds
 BadData <- MCBad
 DEV_NoRestoreOnRaise = FALSE
 DEV_ReplaceStore = FALSE
 DEV_StaleCache = FALSE
CONSTRAINT Depth
INVARIANT NoTempLeft
PROPERTY ParamsStableAcrossFit
PROPERTY SignatureUsesLastData
PROPERTY SetExact
PROPERTY CloneEq
