----------------------------- MODULE MC_Lifecycle -----------------------------
EXTENDS Lifecycle
MCObjs == {1, 2}
MCKeys == {"p", "q"}
MCVals == {"a", "b"}
MCDatas == {"A", "B", "X"}
MCSeeds == {0}
MCBad == {"X"}
Depth == TLCGet("level") <= 9
=============================================================================
