------------------------------- MODULE MC_NGrams -------------------------------
EXTENDS NGrams, Json
ASSUME TupleOrderIsJoinedOrder
StopSeq == SetToSortSeq(stop, <)
\* the document the caller passed is recovered from the initial state only: emit at "filter"
Emit == pc = "filter" =>
   PrintT(ToJson([doc |-> doc, stop |-> StopSeq, minn |-> minn, maxn |-> maxn, grams |-> Grams(doc, stop, minn, maxn)]))
=============================================================================
