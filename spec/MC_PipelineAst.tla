----------------------------- MODULE MC_PipelineAst -----------------------------
EXTENDS PipelineAst, Json
Emit == Complete => PrintT(ToJson([kind |-> kind, parent |-> parent, rank |-> rank,
                                   enum |-> [j \in 1 .. Len(Enumeration) |-> [node |-> Enumeration[j].node, coor |-> Enumeration[j].coor]]]))
=============================================================================
