--------------------------- MODULE MC_PolyFeatures ---------------------------
EXTENDS PolyFeatures, Json
Emit == pc = "done" =>
          PrintT(ToJson([n |-> n, degree |-> degree, io |-> io, bias |-> bias,
                         cols |-> cols, names |-> names, calls |-> calls]))
=============================================================================
