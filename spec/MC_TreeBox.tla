------------------------------ MODULE MC_TreeBox ------------------------------
EXTENDS TreeBox, Json, SequencesExt
PtSeq == SetToSortSeq(Points, LAMBDA a, b : \E f \in DOMAIN a : a[f] < b[f] /\ \A g \in DOMAIN a : g < f => a[g] = b[g])
LeafSeq == SetToSortSeq(TrueLeaves, <)
BoxSeq(k) == LET b == NodeRange(k) IN [j \in 1 .. (IF DOMAIN b = {} THEN 0 ELSE Cardinality(DOMAIN b)) |-> b[j - 1]]
Emit == PrintT(ToJson([left |-> left, right |-> right, feat |-> feat, th |-> th,
                       leaves |-> LeafSeq,
                       ranges |-> [j \in 1 .. Len(LeafSeq) |-> [leaf |-> LeafSeq[j], box |-> BoxSeq(LeafSeq[j])]],
                       pts |-> [j \in 1 .. Len(PtSeq) |-> [x |-> [f \in 1 .. NFeat |-> PtSeq[j][f - 1]], leaf |-> Apply(PtSeq[j])]]]))
=============================================================================
