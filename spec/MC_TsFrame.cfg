SPECIFICATION Spec
CONSTANTS MaxN = 8
          MaxPast = 3
          MaxDelay2 = 3
          MaxCol = 2
INVARIANT TableIsPromised
INVARIANT NothingUnset
INVARIANT TableNoLookAhead
INVARIANT Requirement
