----------------------------- MODULE MC_TsFrame -----------------------------
EXTENDS TsFrame, Json
Seq0(f, k) == [j \in 1 .. k |-> f[j - 1]]
Tab(t, rows, cols) == [R \in 1 .. rows |-> [c \in 1 .. cols |-> t[R - 1][c - 1]]]
\* spec -> code: one JSON case per terminal state (the promised table of that call)
Emit == pc = "done" =>
          PrintT(ToJson([n |-> n, past |-> past, delay2 |-> delay2, ncol |-> ncol,
                         hasW |-> hasW, same |-> same,
                         X |-> Tab(tX, NOut, ncol + past), Y |-> Tab(tY, NOut, delay2 - delay1),
                         W |-> IF hasW THEN Seq0(tW, IF same THEN n ELSE NRow) ELSE <<>>]))
=============================================================================
