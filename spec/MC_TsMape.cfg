SPECIFICATION Spec
CONSTANTS MaxLen = 4
          MaxVal = 2
INVARIANT NonNegative
INVARIANT NaiveIsOne
INVARIANT PerfectIsZero
