-------------------------------- MODULE MLCache --------------------------------
(* mlinsights/mlbatch/cache_model.py  MLCache: a process-wide registry of named caches,  *)
(* each mapping a parameter set (turned into a string key) to a trained model, with a    *)
(* per-key count of successful retrievals.  (Growth of the specification beyond the 20   *)
(* listed properties, section 3 of DESIGN.md; run with `./check X-MLCache`.)             *)
(*                                                                                       *)
(* Actions = the public calls.  A call that violates its precondition raises and changes *)
(* nothing (create of an existing name, cache of an existing key, get_cache / remove of  *)
(* a missing name).                                                                      *)
EXTENDS Integers, FiniteSets, TLC

CONSTANTS Names, Keys, Values

VARIABLES caches,     \* name |-> [store: key |-> value, count: key |-> Nat]   (the registry _caches)
          last        \* the outcome of the last call (observation)
vars == <<caches, last>>
Present == DOMAIN caches
NoVal == "none"

Init == caches = [n \in {} |-> <<>>] /\ last = <<"init">>

Create(n) == IF n \in Present THEN last' = <<"raise", "create">> /\ UNCHANGED caches
             ELSE /\ caches' = [x \in Present \cup {n} |-> IF x = n THEN [store |-> [k \in {} |-> NoVal], count |-> [k \in {} |-> 0]] ELSE caches[x]]
                  /\ last' = <<"ok", "create">>
Remove(n) == IF n \notin Present THEN last' = <<"raise", "remove">> /\ UNCHANGED caches
             ELSE caches' = [x \in Present \ {n} |-> caches[x]] /\ last' = <<"ok", "remove">>
Has(n) == last' = <<"ok", "has", n \in Present>> /\ UNCHANGED caches
Put(n, k, v) == /\ n \in Present
                /\ IF k \in DOMAIN caches[n].store THEN last' = <<"raise", "cache">> /\ UNCHANGED caches
                   ELSE /\ caches' = [caches EXCEPT ![n] = [store |-> [x \in DOMAIN @.store \cup {k} |-> IF x = k THEN v ELSE @.store[x]],
                                                           count |-> [x \in DOMAIN @.count \cup {k} |-> IF x = k THEN 0 ELSE @.count[x]]]]
                        /\ last' = <<"ok", "cache">>
\* get returns the value and counts the hit; a miss returns the default and counts nothing
Get(n, k) == /\ n \in Present
             /\ IF k \in DOMAIN caches[n].store
                THEN /\ caches' = [caches EXCEPT ![n].count[k] = @ + 1]
                     /\ last' = <<"ok", "get", caches[n].store[k]>>
                ELSE last' = <<"ok", "get", NoVal>> /\ UNCHANGED caches
Count(n, k) == /\ n \in Present
               /\ last' = <<"ok", "count", IF k \in DOMAIN caches[n].count THEN caches[n].count[k] ELSE 0>>
               /\ UNCHANGED caches
CacheLen(n) == n \in Present /\ last' = <<"ok", "len", Cardinality(DOMAIN caches[n].store)>> /\ UNCHANGED caches

Next == \E n \in Names : \/ Create(n) \/ Remove(n) \/ Has(n) \/ CacheLen(n)
                         \/ \E k \in Keys : Get(n, k) \/ Count(n, k) \/ \E v \in Values : Put(n, k, v)
Spec == Init /\ [][Next]_vars

\* a cached value is never replaced or lost while its cache exists; counts never decrease and count only hits
ValuesStable == [][\A n \in Present \cap DOMAIN caches' : \A k \in DOMAIN caches[n].store :
                      k \in DOMAIN caches'[n].store /\ caches'[n].store[k] = caches[n].store[k]]_vars
CountsMonotone == [][\A n \in Present \cap DOMAIN caches' : \A k \in DOMAIN caches[n].count : caches'[n].count[k] >= caches[n].count[k]]_vars
CountsMatchStore == \A n \in Present : DOMAIN caches[n].count = DOMAIN caches[n].store
CachesIndependent == [][\A n, m \in Names : (n # m /\ m \in Present \cap DOMAIN caches' /\
                          (\E k \in Keys, v \in Values : Put(n, k, v) \/ Get(n, k))) => caches'[m] = caches[m]]_vars
Bounded == \A n \in Present : \A k \in DOMAIN caches[n].count : caches[n].count[k] <= 2
=============================================================================
