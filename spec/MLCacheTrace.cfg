SPECIFICATION TSpec
CONSTANTS Names = {}
 Keys = {}
 Values = {}
CHECK_DEADLOCK FALSE
