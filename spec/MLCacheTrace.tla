------------------------------ MODULE MLCacheTrace ------------------------------
(* code -> spec for mlbatch.MLCache: a history of public calls; every call is one event  *)
(* carrying its arguments and its outcome (value returned or "raise"), which must be the  *)
(* outcome of the specification's action from the current state.                          *)
EXTENDS MLCache, TraceKit, Sequences
VARIABLES tid, l
T == Batch[tid]
NEv == Len(T.ev)
Ev == T.ev[l]
TInit == tid \in 1 .. Len(Batch) /\ l = 1 /\ caches = [n \in {} |-> <<>>] /\ last = <<"init">>
Act == CASE Ev.a = "create" -> Create(Ev.n) [] Ev.a = "remove" -> Remove(Ev.n) [] Ev.a = "has" -> Has(Ev.n)
         [] Ev.a = "cache" -> Put(Ev.n, Ev.k, Ev.v) [] Ev.a = "get" -> Get(Ev.n, Ev.k)
         [] Ev.a = "count" -> Count(Ev.n, Ev.k) [] Ev.a = "len" -> CacheLen(Ev.n)
Step == /\ l <= NEv /\ Act
        /\ Require(Ev.out = last', T.id, "CallOutcome", l, [call |-> Ev.a, got |-> Ev.out, want |-> last'])
        /\ Require(CountsMatchStore', T.id, "CountsMatchStore", l, <<>>)
        /\ l' = l + 1 /\ UNCHANGED tid
Done == l = NEv + 1 /\ Accepted(T.id) /\ l' = NEv + 2 /\ UNCHANGED <<vars, tid>>
Stuck == l <= NEv /\ ~ENABLED Act /\ Rejected(T.id, l, [event |-> Ev, present |-> Present]) /\ l' = 0 /\ UNCHANGED <<vars, tid>>
TNext == l >= 1 /\ (Step \/ Done \/ Stuck)
TSpec == TInit /\ [][TNext]_<<vars, tid, l>>
=============================================================================
