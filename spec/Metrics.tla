-------------------------------- MODULE Metrics --------------------------------
(* mlinsights/metrics/correlations.py non_linear_correlations (the accumulators) and     *)
(* scoring_metrics.py comparable_metric / r2_score_comparable (the tr / inv_tr dispatch).*)
(*                                                                                       *)
(* (a) Accumulator machine.  For draw k and cell (i, j) the code obtains a value co in   *)
(*     [0, 1] (here an integer 0..Scale) and does  cor[i,j] += co ; k = 0 -> mini = maxi *)
(*     = co, else min / max.  Result: cor / draws, mini, maxi.                           *)
(* (b) Dispatch.  tr and inv_tr are None, a known name ("log", "exp"), a callable, or    *)
(*     something else; the metric receives (tr(y_true), inv_tr(y_pred)), None meaning    *)
(*     identity; both None is refused, a non-callable is refused.                        *)
EXTENDS Integers, Sequences, FiniteSets, TLC

CONSTANTS D, Draws, Scale,
          DEV_MinMaxFromZero     \* TRUE: mini/maxi start at 0 instead of the first draw (a classic slip)

VARIABLES k, i, j, sum, mini, maxi, pc
vars == <<k, i, j, sum, mini, maxi, pc>>
Cells == (0 .. D - 1) \X (0 .. D - 1)
Init == /\ k = 0 /\ i = 0 /\ j = 0 /\ pc = "acc"
        /\ sum = [c \in Cells |-> 0] /\ mini = [c \in Cells |-> 0] /\ maxi = [c \in Cells |-> 0]
Min2(a, b) == IF a <= b THEN a ELSE b
Max2(a, b) == IF a >= b THEN a ELSE b
Acc(co) == /\ pc = "acc"
           /\ sum' = [sum EXCEPT ![<<i, j>>] = @ + co]
           /\ IF k = 0 /\ ~DEV_MinMaxFromZero
              THEN mini' = [mini EXCEPT ![<<i, j>>] = co] /\ maxi' = [maxi EXCEPT ![<<i, j>>] = co]
              ELSE mini' = [mini EXCEPT ![<<i, j>>] = Min2(@, co)] /\ maxi' = [maxi EXCEPT ![<<i, j>>] = Max2(@, co)]
           /\ IF j < D - 1 THEN j' = j + 1 /\ UNCHANGED <<i, k, pc>>
              ELSE IF i < D - 1 THEN j' = 0 /\ i' = i + 1 /\ UNCHANGED <<k, pc>>
              ELSE IF k < Draws - 1 THEN j' = 0 /\ i' = 0 /\ k' = k + 1 /\ UNCHANGED pc
              ELSE pc' = "done" /\ UNCHANGED <<i, j, k>>
Return == pc = "done" /\ UNCHANGED vars
Next == (\E co \in 0 .. Scale : Acc(co)) \/ Return
Spec == Init /\ [][Next]_vars

\* mean = sum / draws, so all clauses are stated on draws * mean = sum
Range      == pc = "done" => \A c \in Cells : 0 <= sum[c] /\ sum[c] <= Draws * Scale
MinMeanMax == pc = "done" => \A c \in Cells : Draws * mini[c] <= sum[c] /\ sum[c] <= Draws * maxi[c]
MinMaxInRange == pc = "done" => \A c \in Cells : 0 <= mini[c] /\ maxi[c] <= Scale
SingleDrawCollapses == (pc = "done" /\ Draws = 1) => \A c \in Cells : mini[c] = sum[c] /\ maxi[c] = sum[c]

-----------------------------------------------------------------------------
(* (b) the dispatch table *)
Args == {"None", "log", "exp", "F", "G", "bad"}         \* F, G: callables; bad: neither a known name nor callable
Fun(a) == IF a = "None" THEN "id" ELSE a                \* the function applied ("log"/"exp" = the NumPy functions)
Outcome(tr, inv) == IF tr = "bad" \/ inv = "bad" THEN <<"TypeError">>
                    ELSE IF tr = "None" /\ inv = "None" THEN <<"ValueError">>
                    ELSE <<"call", Fun(tr), Fun(inv)>>
RefusedIffBothMissing == \A tr, inv \in Args \ {"bad"} : (Outcome(tr, inv)[1] # "call") <=> (tr = "None" /\ inv = "None")
AppliesTrToTrueInvToPred == \A tr, inv \in Args \ {"bad"} : Outcome(tr, inv)[1] = "call" =>
                               Outcome(tr, inv)[2] = Fun(tr) /\ Outcome(tr, inv)[3] = Fun(inv)
ASSUME RefusedIffBothMissing /\ AppliesTrToTrueInvToPred
=============================================================================
