------------------------------ MODULE MetricsTrace ------------------------------
(* code -> spec.                                                                         *)
(* kind "corr":  events acc {k, i, j, co} (co = the value the code itself gives to cell   *)
(*               (i, j) in draw k, read off a one-draw run from the generator state of    *)
(*               draw k, scaled by 10^6; absent when draws cannot be observed that way:   *)
(*               field observable), then result {mean, mini, maxi, ...}.                  *)
(*               Each acc event must be the specification's next Acc step; the returned   *)
(*               matrices must be the specification's accumulators (one unit of slack per *)
(*               draw for rounding to the 10^-6 grid).                                    *)
(* kind "dispatch": one call of comparable_metric with a recording metric function.       *)
EXTENDS Metrics, TraceKit
VARIABLES tid, l
T == Batch[tid]
NEv == Len(T.ev)
Ev == T.ev[l]
TInit == /\ tid \in 1 .. Len(Batch) /\ l = 1
         /\ k = 0 /\ i = 0 /\ j = 0 /\ pc = IF Batch[tid].kind = "corr" THEN "acc" ELSE "done"
         /\ sum = [c \in (0 .. Batch[tid].d - 1) \X (0 .. Batch[tid].d - 1) |-> 0]
         /\ mini = [c \in (0 .. Batch[tid].d - 1) \X (0 .. Batch[tid].d - 1) |-> 0]
         /\ maxi = [c \in (0 .. Batch[tid].d - 1) \X (0 .. Batch[tid].d - 1) |-> 0]
Abs(x) == IF x < 0 THEN -x ELSE x
TAcc == /\ T.kind = "corr" /\ l <= NEv /\ Ev.a = "acc"
        /\ IF pc = "acc" /\ Ev.k = k /\ Ev.i = i /\ Ev.j = j
           THEN /\ Acc(Ev.co)
                /\ Require(Ev.co >= 0 /\ Ev.co <= Scale, T.id, "Range", l, [co |-> Ev.co])
                /\ l' = l + 1
           ELSE Rejected(T.id, l, [want |-> <<k, i, j>>, got |-> Ev]) /\ l' = 0 /\ UNCHANGED vars
        /\ UNCHANGED tid
Mat(m, r, c) == m[r + 1][c + 1]
BadMean == {c \in Cells : Abs(Mat(Ev.mean, c[1], c[2]) * T.draws - sum[c]) > T.draws + 1}
BadMin  == {c \in Cells : Mat(Ev.mini, c[1], c[2]) # mini[c]}
BadMax  == {c \in Cells : Mat(Ev.maxi, c[1], c[2]) # maxi[c]}
BadRange == {c \in Cells : Mat(Ev.mean, c[1], c[2]) < 0 \/ Mat(Ev.mean, c[1], c[2]) > Scale}
BadOrder == {c \in Cells : ~(Mat(Ev.mini, c[1], c[2]) <= Mat(Ev.mean, c[1], c[2]) + 1 /\ Mat(Ev.mean, c[1], c[2]) <= Mat(Ev.maxi, c[1], c[2]) + 1)}
TResult == /\ T.kind = "corr" /\ l = NEv /\ Ev.a = "result"
           /\ IF T.observable /\ pc # "done" THEN Rejected(T.id, l, [want |-> <<k, i, j>>, got |-> "result"]) /\ l' = 0
              ELSE /\ Require(Ev.rows = D /\ Ev.cols = D, T.id, "Square", l, [rows |-> Ev.rows, cols |-> Ev.cols])
                   /\ Require(~T.observable \/ BadMean = {}, T.id, "MeanIsSumOverDraws", l, [cells |-> BadMean])
                   /\ Require(BadRange = {}, T.id, "Range", l, [cells |-> BadRange])
                   /\ Require((T.minmax /\ T.observable) => (BadMin = {} /\ BadMax = {}), T.id, "MinMaxAreExtremes", l, [mini |-> BadMin, maxi |-> BadMax])
                   /\ Require(T.minmax => BadOrder = {}, T.id, "MinMeanMax", l, [cells |-> BadOrder])
                   /\ Require(Ev.labels_kept, T.id, "LabelsKept", l, <<>>)
                   /\ Require(Ev.input_untouched, T.id, "InputUntouched", l, <<>>)
                   /\ Require(Ev.frame_eq_array, T.id, "FrameEqArray", l, <<>>)
                   /\ Require(T.identity_model => \A r \in 0 .. D - 1 : Ev.learnable[r + 1] => Mat(Ev.mean, r, r) >= Scale - 1, T.id, "UnitDiagonal", l, <<>>)
                   /\ Accepted(T.id) /\ l' = l + 1
           /\ UNCHANGED <<vars, tid>>
TDispatch == /\ T.kind = "dispatch" /\ l = 1
             /\ Require(T.outcome = Outcome(T.tr, T.inv), T.id, "Dispatch", l, [got |-> T.outcome, want |-> Outcome(T.tr, T.inv)])
             /\ Require(T.r2_equal, T.id, "R2IsR2OfTransformed", l, <<>>)
             /\ Accepted(T.id) /\ l' = 2 /\ UNCHANGED <<vars, tid>>
TNext == (TAcc \/ TResult \/ TDispatch) /\ l >= 1
TSpec == TInit /\ [][TNext]_<<vars, tid, l>>
=============================================================================
