-------------------------------- MODULE NGrams --------------------------------
(* mlinsights/mlmodel/sklearn_text.py  NGramsMixin._word_ngrams and the traceable        *)
(* vectorizers.  Tokens are small integers (their order is the order of the strings      *)
(* they stand for), a document is a sequence of tokens, a gram is a FLAT tuple of tokens.*)
(* Mechanism: stop-word filter, then the n-gram assembly loop exactly in the order the   *)
(* code (and scikit-learn) emits grams: unigrams first when min_n = 1, then by n, then   *)
(* by position, n bounded by the document length.                                        *)
EXTENDS Integers, Sequences, FiniteSets, SequencesExt, TLC

CONSTANTS Tokens, MaxDocLen, MaxN,
          DEV_WrapBeforeFilter    \* TRUE: tokens are wrapped into 1-tuples BEFORE the stop-word test (the defect):
                                  \* nothing is ever filtered and grams become tuples of tuples

VARIABLES doc, stop, minn, maxn, pc, n, i, out
vars == <<doc, stop, minn, maxn, pc, n, i, out>>

Filter(d, st) == SelectSeq(d, LAMBDA w : w \notin st)
Min2(a, b) == IF a <= b THEN a ELSE b

Init == /\ \E len \in 0 .. MaxDocLen : doc \in [1 .. len -> Tokens]
        /\ stop \in SUBSET Tokens
        /\ minn \in 1 .. MaxN /\ maxn \in 1 .. MaxN /\ minn <= maxn
        /\ pc = "filter" /\ n = 0 /\ i = 0 /\ out = <<>>

\* tokens = [w for w in tokens if w not in stop_words]
FilterStep == /\ pc = "filter"
              /\ doc' = IF DEV_WrapBeforeFilter THEN doc ELSE Filter(doc, stop)
              /\ pc' = "start" /\ UNCHANGED <<stop, minn, maxn, n, i, out>>
\* if max_n != 1: (min_n == 1 -> keep the unigrams, min_n += 1) else: the unigrams are the result
Start == /\ pc = "start"
         /\ IF maxn = 1 THEN out' = [q \in 1 .. Len(doc) |-> <<doc[q]>>] /\ pc' = "done" /\ UNCHANGED <<n, i>>
            ELSE /\ out' = IF minn = 1 THEN [q \in 1 .. Len(doc) |-> <<doc[q]>>] ELSE <<>>
                 /\ n' = IF minn = 1 THEN 2 ELSE minn
                 /\ i' = 0 /\ pc' = "loop"
         /\ UNCHANGED <<doc, stop, minn, maxn>>
\* for n in range(min_n, min(max_n + 1, len + 1)): for i in range(len - n + 1): append(tokens[i:i+n])
Loop == /\ pc = "loop"
        /\ IF n >= Min2(maxn + 1, Len(doc) + 1) THEN pc' = "done" /\ UNCHANGED <<n, i, out>>
           ELSE IF i >= Len(doc) - n + 1 THEN n' = n + 1 /\ i' = 0 /\ UNCHANGED <<pc, out>>
           ELSE out' = Append(out, SubSeq(doc, i + 1, i + n)) /\ i' = i + 1 /\ UNCHANGED <<pc, n>>
        /\ UNCHANGED <<doc, stop, minn, maxn>>
Return == pc = "done" /\ UNCHANGED vars
Next == FilterStep \/ Start \/ Loop \/ Return
Spec == Init /\ [][Next]_vars

-----------------------------------------------------------------------------
(* Requirement, stated independently of the loop: scikit-learn's analyzer *)
RECURSIVE Windows(_, _, _)
Windows(d, k, p) == IF p + k - 1 > Len(d) THEN <<>> ELSE <<SubSeq(d, p, p + k - 1)>> \o Windows(d, k, p + 1)
RECURSIVE GramsFrom(_, _, _)
GramsFrom(d, k, kmax) == IF k > kmax THEN <<>> ELSE Windows(d, k, 1) \o GramsFrom(d, k + 1, kmax)
Grams(d, st, lo, hi) == GramsFrom(Filter(d, st), lo, Min2(hi, Len(Filter(d, st))))
\* the document as the caller passed it is kept in a history-free way: doc is only ever replaced by its filter
SameGrams == pc = "done" => out = GramsFrom(doc, minn, Min2(maxn, Len(doc)))
NoStopWordLeft == pc = "done" => \A g \in Range(out) : \A q \in DOMAIN g : g[q] \notin stop
GramsAreFlatAndBounded == pc = "done" => \A g \in Range(out) : Len(g) \in minn .. maxn

\* vocabulary of a corpus = sorted distinct grams; tuple order must be the order of the space-joined strings.
\* Characters: a token is a sequence over 1..4 (A < B < a < b), the space is 0 (smaller than every word character).
\* Tokens 1..4 are aa, aaa, aab, bb (or, with lowercase=False, AA, AAA, AAB, BB and 5..8 their lower-case twins).
Chars(tok) == CASE tok = 1 -> <<1>> [] tok = 2 -> <<1, 1>> [] tok = 3 -> <<1, 2>> [] tok = 4 -> <<2>>
                [] tok = 5 -> <<3>> [] tok = 6 -> <<3, 3>> [] tok = 7 -> <<3, 4>> [] OTHER -> <<4>>
RECURSIVE Join(_)
Join(g) == IF Len(g) = 0 THEN <<>> ELSE IF Len(g) = 1 THEN Chars(g[1]) ELSE Chars(g[1]) \o <<0>> \o Join(Tail(g))
SeqLess(s, t) == \/ \E q \in 1 .. Min2(Len(s), Len(t)) : s[q] < t[q] /\ \A r \in 1 .. q - 1 : s[r] = t[r]
                 \/ (Len(s) < Len(t) /\ \A r \in 1 .. Len(s) : s[r] = t[r])
TokLess(a, b) == SeqLess(Chars(a), Chars(b))
GramLess(g, h) == \/ \E q \in 1 .. Min2(Len(g), Len(h)) : TokLess(g[q], h[q]) /\ \A r \in 1 .. q - 1 : g[r] = h[r]
                  \/ (Len(g) < Len(h) /\ \A r \in 1 .. Len(g) : g[r] = h[r])
AllGrams == UNION {[1 .. k -> 1 .. 8] : k \in 1 .. 3}
TupleOrderIsJoinedOrder == \A g, h \in AllGrams : GramLess(g, h) <=> SeqLess(Join(g), Join(h))
=============================================================================
