SPECIFICATION TSpec
CONSTANTS Tokens = {1, 2, 3, 4}
 MaxDocLen = 0
 MaxN = 0
 DEV_WrapBeforeFilter = FALSE
CHECK_DEADLOCK FALSE
