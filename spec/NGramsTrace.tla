------------------------------ MODULE NGramsTrace ------------------------------
(* code -> spec for the traceable vectorizers.                                           *)
(*  kind "grams":  one call of NGramsMixin._word_ngrams (and of scikit-learn's own        *)
(*                 _word_ngrams on the same arguments): both must be Grams(doc, stop, n). *)
(*  kind "corpus": TraceableCount/TfidfVectorizer and their scikit-learn parents fitted   *)
(*                 on the same corpus: same vocabulary up to joining, same matrix; when   *)
(*                 nothing is pruned the vocabulary and the counts are those the          *)
(*                 specification computes from Grams.                                     *)
EXTENDS NGrams, TraceKit
VARIABLES tid, l
T == Batch[tid]
TInit == /\ tid \in 1 .. Len(Batch) /\ l = 1
         /\ doc = <<>> /\ stop = ToSet(Batch[tid].stop) /\ minn = Batch[tid].minn /\ maxn = Batch[tid].maxn
         /\ pc = "done" /\ n = 0 /\ i = 0 /\ out = <<>>
Count(g, s) == Cardinality({q \in 1 .. Len(s) : s[q] = g})
DocGrams(d) == Grams(T.docs[d], stop, minn, maxn)
CorpusGrams == UNION {ToSet(DocGrams(d)) : d \in 1 .. Len(T.docs)}
Vocab == SetToSortSeq(CorpusGrams, GramLess)
WantCell(d, c) == LET k == Count(Vocab[c], DocGrams(d)) IN IF T.binary /\ k > 0 THEN 1 ELSE k
ObsGrams == /\ Require(T.got = Grams(T.doc, stop, minn, maxn), T.id, "SameGrams", l,
                       [got |-> T.got, want |-> Grams(T.doc, stop, minn, maxn)])
            /\ Require(T.sk = Grams(T.doc, stop, minn, maxn), T.id, "SpecGramsAreSklearn", l, [got |-> T.sk])
ObsCorpus ==
   /\ Require(ToSet(T.tvocab) = ToSet(T.svocab), T.id, "VocabularyColumns", l, [traceable |-> T.tvocab, sklearn |-> T.svocab])
   /\ Require(T.tmat = T.smat, T.id, "SameMatrix", l, [traceable |-> T.tmat, sklearn |-> T.smat])
   /\ Require(T.tfidf_equal, T.id, "SameTfidfMatrix", l, <<>>)
   /\ (~T.pruned) =>
        /\ Require(T.tvocab = [c \in 1 .. Len(Vocab) |-> [gram |-> Vocab[c], col |-> c - 1]], T.id, "VocabularyIsSortedGrams", l,
                   [got |-> T.tvocab, want |-> Vocab])
        /\ Require(T.tmat = [d \in 1 .. Len(T.docs) |-> [c \in 1 .. Len(Vocab) |-> WantCell(d, c)]], T.id, "CountsAreGramCounts", l,
                   [got |-> T.tmat])
Observe == /\ l = 1
           /\ IF T.kind = "grams" THEN ObsGrams ELSE ObsCorpus
           /\ Accepted(T.id) /\ l' = 2 /\ UNCHANGED <<vars, tid>>
TSpec == TInit /\ [][Observe]_<<vars, tid, l>>
=============================================================================
