------------------------------- MODULE Piecewise -------------------------------
(* mlinsights/mlmodel/piecewise_estimator.py  PiecewiseRegressor / PiecewiseClassifier.  *)
(* A training row r has an abstract cell cell[r] (leaf of the fitted tree / cell tuple of *)
(* the discretizer) and, for a classifier, a class cls[r].                               *)
(* Mechanism: _mapping_train (cells seen in training |-> 0..m-1 in increasing cell       *)
(* order), the fallback model on all rows, one task per bucket                           *)
(* (_fit_piecewise_estimator: the bucket's rows plus, for a classifier, the first row of *)
(* each missing class in a shuffled order of all rows), then dispatch at predict time.   *)
(* Local models are abstracted to recording models: output = f(set of rows it saw, row). *)
EXTENDS Integers, Sequences, FiniteSets, TLC

CONSTANTS MaxRows, Cells, Classes, IsClassifier,
          DEV_BorrowEveryClass     \* TRUE: a bucket borrows a row of EVERY class, not only of the missing ones

VARIABLES cell, cls, mapping, fitrows, meanrows, phase
vars == <<cell, cls, mapping, fitrows, meanrows, phase>>
Rows == DOMAIN cell

Init == /\ \E n \in 1 .. MaxRows : /\ cell \in [1 .. n -> Cells]
                                   /\ cls \in [1 .. n -> (IF IsClassifier THEN Classes ELSE {0})]
        /\ mapping = <<>> /\ fitrows = <<>> /\ meanrows = {} /\ phase = "map"

Seen == {cell[r] : r \in Rows}
RankOf(c) == Cardinality({d \in Seen : d < c})
\* association / mapping: cells seen in training, numbered in increasing order
BuildMapping == /\ phase = "map"
                /\ mapping' = [c \in Seen |-> RankOf(c)]
                /\ phase' = "mean" /\ UNCHANGED <<cell, cls, fitrows, meanrows>>
\* mean_estimator_ = clone(estimator).fit(X, y, sample_weight)
FitMean == /\ phase = "mean" /\ meanrows' = Rows /\ fitrows' = [i \in 0 .. Cardinality(Seen) - 1 |-> {}]
           /\ phase' = "buckets" /\ UNCHANGED <<cell, cls, mapping>>
Own(i) == {r \in Rows : mapping[cell[r]] = i}
AllClasses == {cls[r] : r \in Rows}
Missing(i) == AllClasses \ {cls[r] : r \in Own(i)}
Wanted(i) == IF DEV_BorrowEveryClass THEN AllClasses ELSE Missing(i)
\* a legal borrow: exactly one row per wanted class, of that class
Borrows(i) == {B \in SUBSET Rows : /\ \A r \in B : cls[r] \in Wanted(i)
                                   /\ \A k \in Wanted(i) : Cardinality({r \in B : cls[r] = k}) = 1}
FitBucket(i) == /\ phase = "buckets" /\ fitrows[i] = {}
                /\ IF IsClassifier /\ (Missing(i) # {} \/ DEV_BorrowEveryClass)
                   THEN \E B \in Borrows(i) : fitrows' = [fitrows EXCEPT ![i] = Own(i) \cup B]
                   ELSE fitrows' = [fitrows EXCEPT ![i] = Own(i)]
                /\ UNCHANGED <<cell, cls, mapping, meanrows, phase>>
Finish == /\ phase = "buckets" /\ \A i \in DOMAIN fitrows : fitrows[i] # {}
          /\ phase' = "fitted" /\ UNCHANGED <<cell, cls, mapping, fitrows, meanrows>>
Return == phase = "fitted" /\ UNCHANGED vars
DoFitBucket == \E i \in DOMAIN fitrows : FitBucket(i)
Next == BuildMapping \/ FitMean \/ DoFitBucket \/ Finish \/ Return
Spec == Init /\ [][Next]_vars

-----------------------------------------------------------------------------
\* dispatch: the model that answers for a row whose cell is c
Answers(c) == IF c \in DOMAIN mapping THEN fitrows[mapping[c]] ELSE meanrows
Partition == phase = "fitted" => \A r \in Rows : Cardinality({i \in DOMAIN fitrows : r \in Own(i)}) = 1
OneModelPerNonEmptyBucket == phase = "fitted" => /\ Cardinality(DOMAIN fitrows) = Cardinality(Seen)
                                                 /\ \A i \in DOMAIN fitrows : Own(i) # {}
ExactRows == phase = "fitted" => \A i \in DOMAIN fitrows :
                /\ Own(i) \subseteq fitrows[i]
                /\ LET extra == fitrows[i] \ Own(i) IN
                   /\ \A r \in extra : cls[r] \in Missing(i)
                   /\ \A k \in Missing(i) : Cardinality({r \in extra : cls[r] = k}) = 1
                   /\ (~IsClassifier => extra = {})
EveryModelSeesEveryClass == (phase = "fitted" /\ IsClassifier) => \A i \in DOMAIN fitrows : {cls[r] : r \in fitrows[i]} = AllClasses
FallbackOnAllRows == phase = "fitted" => meanrows = Rows
=============================================================================
