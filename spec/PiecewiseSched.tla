----------------------------- MODULE PiecewiseSched -----------------------------
(* The bucket tasks of PiecewiseClassifier.fit under joblib threads                      *)
(* (Parallel(prefer="threads")).  A task that must borrow shuffles the row indices with  *)
(* a random generator: ONE RandomState shared by all tasks (as the code did), or one     *)
(* stream per bucket (intended).  A shared generator is modelled as a sequence of        *)
(* outcomes consumed in arrival order; the shuffle is atomic under the GIL, so the       *)
(* interleaving is the order in which the tasks reach it.                                *)
EXTENDS Integers, Sequences, FiniteSets, TLC
CONSTANTS NTasks,             \* bucket tasks that need to borrow
          DEV_SharedRng       \* TRUE: all tasks draw from the same generator
VARIABLES counter, drew, pcs
vars == <<counter, drew, pcs>>
Tasks == 1 .. NTasks
Init == counter = 1 /\ drew = [t \in Tasks |-> 0] /\ pcs = [t \in Tasks |-> "shuffle"]
\* drew[t] = index of the random outcome task t obtained: a shared generator hands out its outcomes in arrival
\* order; a per-bucket generator always gives the bucket its own first outcome
Shuffle(t) == /\ pcs[t] = "shuffle"
              /\ drew' = [drew EXCEPT ![t] = IF DEV_SharedRng THEN counter ELSE 1000 * t + 1]
              /\ counter' = counter + 1
              /\ pcs' = [pcs EXCEPT ![t] = "fit"]
FitT(t) == pcs[t] = "fit" /\ pcs' = [pcs EXCEPT ![t] = "done"] /\ UNCHANGED <<counter, drew>>
Done == (\A t \in Tasks : pcs[t] = "done") /\ UNCHANGED vars
Next == (\E t \in Tasks : Shuffle(t) \/ FitT(t)) \/ Done
Spec == Init /\ [][Next]_vars
\* the outcome each task gets must not depend on the schedule: it must be what the sequential order (n_jobs=None) gives
Sequential(t) == IF DEV_SharedRng THEN t ELSE 1000 * t + 1
ScheduleIndependent == (\A t \in Tasks : pcs[t] = "done") => \A t \in Tasks : drew[t] = Sequential(t)
=============================================================================
