SPECIFICATION TSpec
CONSTANTS MaxRows = 0
 Cells = {}
 Classes = {}
 IsClassifier = FALSE
 DEV_BorrowEveryClass = FALSE
CHECK_DEADLOCK FALSE
