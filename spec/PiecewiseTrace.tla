----------------------------- MODULE PiecewiseTrace -----------------------------
(* code -> spec for PiecewiseRegressor / PiecewiseClassifier with recording local models. *)
(* The trace carries, per training row, its cell in the FITTED binner (binner_.apply /   *)
(* binner_.transform, numbered order-isomorphically), target / class and weight; then:   *)
(*   fit {rows, ys, ws}      one local-model fit as recorded by the stub (any order:     *)
(*                           threads), matched to the fallback model or to a bucket      *)
(*   fitted {estimators}     fit returned; estimators_[i] listed by the rows they saw     *)
(*   predict {id, cell, out} one probe row: the integer the answering stub produced      *)
(*   same_schedule {equal}   a second fit under another task order gave the same models  *)
EXTENDS Piecewise, TraceKit
VARIABLES tid, l
T   == Batch[tid]
NEv == Len(T.ev)
Ev  == T.ev[l]
ToSet(s) == {s[j] : j \in 1 .. Len(s)}
TInit == /\ tid \in 1 .. Len(Batch) /\ l = 1
         /\ cell = Batch[tid].cell /\ cls = Batch[tid].cls
         /\ mapping = <<>> /\ fitrows = <<>> /\ meanrows = {} /\ phase = "map"
Go == l' = l + 1 /\ UNCHANGED tid
Is(a) == l <= NEv /\ Ev.a = a
\* bookkeeping of FitMean without marking the fallback model as fitted (its fit is a logged event)
FitMeanSilent == /\ phase = "mean" /\ fitrows' = [i \in 0 .. Cardinality(Seen) - 1 |-> {}] /\ phase' = "buckets"
                 /\ UNCHANGED <<cell, cls, mapping, meanrows>>
Silent == (BuildMapping \/ FitMeanSilent) /\ UNCHANGED <<tid, l>>
RECURSIVE SumOver(_, _)
SumOver(f, S) == IF S = {} THEN 0 ELSE LET r == CHOOSE r \in S : TRUE IN f[r] + SumOver(f, S \ {r})
Aligned == /\ Ev.ys = [q \in 1 .. Len(Ev.rows) |-> T.y[Ev.rows[q]]]
           /\ Ev.ws = (IF T.weighted THEN [q \in 1 .. Len(Ev.rows) |-> T.w[Ev.rows[q]]] ELSE <<>>)
           /\ Cardinality(ToSet(Ev.rows)) = Len(Ev.rows)
LegalBucket(i, S) == /\ fitrows[i] = {} /\ Own(i) \subseteq S
                     /\ LET extra == S \ Own(i) IN
                        /\ \A r \in extra : r \in Rows /\ cls[r] \in Missing(i)
                        /\ \A k \in Missing(i) : Cardinality({r \in extra : cls[r] = k}) = 1
                        /\ (~T.isclf => extra = {})
\* Which local model is stored where (the position in estimators_, a separate mean_estimator_) is the implementation's
\* business: a recorded fit is attributed by WHAT it was trained on.  The harness proposes the attribution (a matching of
\* the recorded fits to the buckets and the fallback, found on the row sets alone; -2 when there is none) and the
\* specification checks it: the rows of that not yet fitted bucket plus, for a classifier, exactly one borrowed example
\* per missing class - or all rows for the fallback model.
TFit == /\ Is("fit") /\ phase = "buckets"
        /\ Require(Aligned, T.id, "RowsTargetsWeightsTogether", l, [rows |-> Ev.rows, ys |-> Ev.ys, ws |-> Ev.ws])
        /\ LET S == ToSet(Ev.rows) IN
           IF Ev.bucket = -1
           THEN /\ Require(S = Rows /\ meanrows = {}, T.id, "FallbackOnAllRows", l, [rows |-> Ev.rows])
                /\ meanrows' = S /\ UNCHANGED fitrows
           ELSE IF Ev.bucket \in DOMAIN fitrows /\ LegalBucket(Ev.bucket, S)
                THEN fitrows' = [fitrows EXCEPT ![Ev.bucket] = S] /\ UNCHANGED meanrows
                ELSE /\ Failed(T.id, "ExactRows", l, [bucket |-> Ev.bucket, rows |-> Ev.rows,
                                                      own |-> IF Ev.bucket \in DOMAIN fitrows THEN Own(Ev.bucket) ELSE {},
                                                      missing |-> IF Ev.bucket \in DOMAIN fitrows THEN Missing(Ev.bucket) ELSE {}])
                     /\ UNCHANGED <<fitrows, meanrows>>
        /\ UNCHANGED <<cell, cls, mapping, phase>> /\ Go
TFitted == /\ Is("fitted") /\ phase = "buckets"
           /\ Require(\A i \in DOMAIN fitrows : fitrows[i] # {}, T.id, "OneModelPerNonEmptyBucket", l, [unfitted |-> {i \in DOMAIN fitrows : fitrows[i] = {}}])
           /\ Require(meanrows = Rows, T.id, "FallbackOnAllRows", l, <<>>)
           /\ phase' = "fitted" /\ UNCHANGED <<cell, cls, mapping, fitrows, meanrows>> /\ Go
\* what the recording model that must answer produces for this probe
Expected == LET S == Answers(Ev.cell) IN
            IF T.isclf THEN (SumOver([r \in Rows |-> r], S) + Ev.id) % Cardinality(AllClasses)
            ELSE SumOver([r \in Rows |-> T.y[r]], S) + Ev.id
TPredict == /\ Is("predict") /\ phase = "fitted"
            /\ Require(Ev.out = Expected, T.id, "Dispatch", l, [got |-> Ev.out, want |-> Expected, cell |-> Ev.cell, seen |-> Ev.cell \in DOMAIN mapping])
            /\ Require(Ev.batch_equal, T.id, "BatchEqualsSingleRow", l, <<>>)
            /\ (T.isclf => Require(Ev.proba_ok /\ Ev.label_in_classes, T.id, "ProbaIsDistribution", l, <<>>))
            /\ UNCHANGED vars /\ Go
TSame == /\ Is("same_schedule") /\ phase = "fitted"
         /\ Require(Ev.equal, T.id, "ScheduleIndependent", l, [order |-> Ev.order])
         /\ UNCHANGED vars /\ Go
TRaised == Is("raised") /\ Failed(T.id, "FitSucceeds", l, [err |-> Ev.err]) /\ UNCHANGED vars /\ Go
TDone == /\ l = NEv + 1 /\ Accepted(T.id) /\ l' = NEv + 2 /\ UNCHANGED <<vars, tid>>
TNext == l >= 1 /\ (Silent \/ TFit \/ TFitted \/ TPredict \/ TSame \/ TRaised \/ TDone)
TSpec == TInit /\ [][TNext]_<<vars, tid, l>>
=============================================================================
