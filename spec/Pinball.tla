-------------------------------- MODULE Pinball --------------------------------
(* mlinsights/mlmodel/quantile_regression.py QuantileLinearRegression.                   *)
(* Data (x_i, y_i, w_i) are integers, the quantile is q = A/B.  For a line               *)
(* f(x) = s*x + c the pinball loss of q is                                               *)
(*      sum_i w_i * ( q * max(y_i - f(x_i), 0) + (1-q) * max(f(x_i) - y_i, 0) ).         *)
(* The minimum of this convex piecewise-linear function is attained at a VERTEX: a line  *)
(* through two data points (one point and the origin when there is no intercept).  All   *)
(* quantities are kept as integers: the loss of the line through points i, j is          *)
(* LossNum(i,j) / (B * |D(i,j)|).                                                        *)
EXTENDS Integers, Sequences, FiniteSets, TLC

CONSTANTS MaxN, XVals, YVals, WVals, Quantiles       \* Quantiles: set of <<A, B>>
VARIABLES X, Y, W, q
vars == <<X, Y, W, q>>
N == Len(X)
Abs(v) == IF v < 0 THEN -v ELSE v
RECURSIVE SumTo(_, _)
SumTo(f, k) == IF k = 0 THEN 0 ELSE f[k] + SumTo(f, k - 1)

\* residual numerator of point k w.r.t. the line through i and j:  (y_k - f(x_k)) * D,  D = x_j - x_i
D(i, j) == X[j] - X[i]
Res(i, j, k) == (Y[k] - Y[i]) * D(i, j) - (Y[j] - Y[i]) * (X[k] - X[i])
\* y_k above the line  <=>  Res * sign(D) > 0 : weight A (= q*B) ; below: weight B - A
Coef(r) == IF r > 0 THEN q[1] ELSE q[2] - q[1]
Sgn(v) == IF v > 0 THEN 1 ELSE IF v < 0 THEN -1 ELSE 0
LossNum(i, j) == SumTo([k \in DOMAIN X |-> W[k] * Coef(Res(i, j, k) * Sgn(D(i, j))) * Abs(Res(i, j, k))], N)
Vertices == {ij \in (DOMAIN X) \X (DOMAIN X) : ij[1] < ij[2] /\ X[ij[1]] # X[ij[2]]}
\* a/|Da| <= b/|Db|
Leq(a, da, b, db) == a * Abs(db) <= b * Abs(da)
IsBest(v) == \A u \in Vertices : Leq(LossNum(v[1], v[2]), D(v[1], v[2]), LossNum(u[1], u[2]), D(u[1], u[2]))
BestVertex == CHOOSE v \in Vertices : IsBest(v)

\* two steps so that TLC's workers share the enumeration: the design (n, x) first, then targets, weights, quantile
Init == /\ \E n \in 2 .. MaxN : X \in [1 .. n -> XVals]
        /\ \E i, j \in DOMAIN X : X[i] # X[j]                   \* full rank
        /\ Y = <<>> /\ W = <<>> /\ q = <<1, 2>>
Pick == /\ Y = <<>>
        /\ Y' \in [DOMAIN X -> YVals] /\ W' \in [DOMAIN X -> WVals] /\ q' \in Quantiles
        /\ UNCHANGED X
Next == Pick \/ (Y # <<>> /\ UNCHANGED vars)
Spec == Init /\ [][Next]_vars
Ready == Y # <<>>

\* the loss of an arbitrary lattice line  y = (sn/sd) x + c/sd  in units 1/(B*sd)
LineLoss(sn, c, sd) == SumTo([k \in DOMAIN X |-> W[k] * Coef(Y[k] * sd - sn * X[k] - c) * Abs(Y[k] * sd - sn * X[k] - c)], N)
\* no line with slope in {-2..2}/sd, intercept c/sd (sd in 1..2) beats the best vertex
VertexOptimal == Ready => LET v == BestVertex  L == LossNum(v[1], v[2])  Dv == D(v[1], v[2]) IN
                 \A sd \in 1 .. 2 : \A sn \in -3 .. 3 : \A c \in -6 .. 6 : Leq(L, Dv, LineLoss(sn, c, sd), sd)
\* integer weights are repetitions: the loss is additive over repeated rows (definitional) and the optimum is the same
\* at the optimum about a fraction q of the (weighted) targets lies below the line
Below(i, j) == SumTo([k \in DOMAIN X |-> IF Res(i, j, k) * Sgn(D(i, j)) < 0 THEN W[k] ELSE 0], N)
OnLine(i, j) == SumTo([k \in DOMAIN X |-> IF Res(i, j, k) = 0 THEN W[k] ELSE 0], N)
QuantileCount == Ready => LET v == BestVertex  tot == SumTo(W, N) IN
                 /\ Below(v[1], v[2]) * q[2] <= q[1] * tot
                 /\ q[1] * tot <= (Below(v[1], v[2]) + OnLine(v[1], v[2])) * q[2]
=============================================================================
