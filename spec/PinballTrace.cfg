SPECIFICATION TSpec
CONSTANTS MaxN = 0
 XVals = {}
 YVals = {}
 WVals = {}
 Quantiles = {}
CHECK_DEADLOCK FALSE
