------------------------------ MODULE PinballTrace ------------------------------
(* code -> spec for QuantileLinearRegression.  One trace = one fit (max_iter = 100) on    *)
(* integer data with one feature: the fitted line rounded to the 10^-2 grid, score on    *)
(* the training set, the score of the fit at quantile 1-q under the q-loss, and the      *)
(* options.  The specification computes the exact optimum over the LP's vertex set       *)
(* itself and requires                                                                   *)
(*    Loss(theta) <= (1 + 1/50) * Opt + 3/2       (the stated IRLS tolerance, DESIGN C05) *)
(*    score = 2 * Loss(theta) / (total weight)    (within the rounding of the grid)      *)
EXTENDS Pinball, TraceKit
VARIABLES tid, l
T == Batch[tid]
G == 100
TInit == /\ tid \in 1 .. Len(Batch) /\ l = 1
         /\ X = Batch[tid].X /\ Y = Batch[tid].Y /\ W = Batch[tid].W /\ q = <<Batch[tid].qa, Batch[tid].qb>>
\* loss of the fitted line in units 1/(B*G)
LossHat == LineLoss(T.s, T.c, G)
\* vertices without intercept: lines through the origin and one data point
ResO(i, k) == Y[k] * X[i] - Y[i] * X[k]
LossNumO(i) == SumTo([k \in DOMAIN X |-> W[k] * Coef(ResO(i, k) * Sgn(X[i])) * Abs(ResO(i, k))], N)
VerticesO == {i \in DOMAIN X : X[i] # 0}
BestO == CHOOSE i \in VerticesO : \A u \in VerticesO : Leq(LossNumO(i), X[i], LossNumO(u), X[u])
OptNum == IF T.fit_intercept THEN LossNum(BestVertex[1], BestVertex[2]) ELSE LossNumO(BestO)
OptDen == IF T.fit_intercept THEN Abs(D(BestVertex[1], BestVertex[2])) ELSE Abs(X[BestO])
\* Lhat/(B*G) <= (51/50) * Opt/(B*Dv) + 3/2    <=>   Lhat * Dv * 50 <= 51 * G * Opt + 75 * B * G * Dv
NearOptimal == LossHat * OptDen * 50 <= 51 * G * OptNum + 75 * q[2] * G * OptDen
TotalW == SumTo(W, N)
\* score * G * B * TotalW = 2 * Lhat   (score logged as round(score * G))
ScoreTol == 2 * N * q[2] * 12 + q[2] * TotalW
ScoreOK(sc) == Abs(sc * q[2] * TotalW - 2 * LossHat) <= ScoreTol
BelowHat == SumTo([k \in DOMAIN X |-> IF Y[k] * G - T.s * X[k] - T.c < -G \div 2 THEN W[k] ELSE 0], N)
NearHat == SumTo([k \in DOMAIN X |-> IF Abs(Y[k] * G - T.s * X[k] - T.c) <= G \div 2 THEN W[k] ELSE 0], N)
Observe == /\ l = 1
           \* (with outliers of size 3000 the products of NearOptimal leave TLC's 32-bit integers: those traces are decided by
           \*  QuantileCount, which is what a quantile fit with heavy tails is about)
           /\ Require(T.positive \/ T.outliers \/ NearOptimal, T.id, "MinimisesPinballLoss", l,
                      [loss |-> LossHat, opt_num |-> OptNum, opt_den |-> OptDen, theta |-> <<T.s, T.c>>])
           /\ Require(ScoreOK(T.score), T.id, "ScoreIsTwiceMeanLoss", l, [score |-> T.score, twice_loss |-> 2 * LossHat, weight |-> TotalW])
           \* (a fit stopped after one or two IRLS passes is not "the better q-fit": only full fits are compared)
           /\ Require(~T.full \/ T.score <= T.score_other + 2, T.id, "BetterFitNeverScoresWorse", l, [own |-> T.score, other |-> T.score_other])
           \* "about a fraction q lies below": the LP optimality condition needs an intercept; two units of slack for a
           \* fit that is within the IRLS tolerance of the optimum but not at a vertex
           /\ Require(T.positive \/ ~T.fit_intercept \/ ((BelowHat - 2) * q[2] <= q[1] * TotalW /\ q[1] * TotalW <= (BelowHat + NearHat + 2) * q[2]), T.id,
                      "QuantileCount", l, [below |-> BelowHat, near |-> NearHat, total |-> TotalW])
           /\ Require(T.positive => T.s >= 0, T.id, "PositiveCoefficients", l, [slope |-> T.s])
           /\ Require(T.fit_intercept \/ T.c = 0, T.id, "ZeroIntercept", l, [intercept |-> T.c])
           /\ Accepted(T.id)
           /\ l' = 2 /\ UNCHANGED <<vars, tid>>
TSpec == TInit /\ [][Observe]_<<vars, tid, l>>
=============================================================================
