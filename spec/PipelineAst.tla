------------------------------ MODULE PipelineAst ------------------------------
(* Pipelines as data (C16): mlinsights/helpers/pipeline.py (enumerate_pipeline_models,   *)
(* alter_pipeline_for_debugging) and plotting/visualize.py (pipeline2str, pipeline2dot). *)
(* An AST is a node table (TLC cannot hold nested tuples of different shapes in a set):  *)
(*   kind[i]   "pipe" | "union" | "colt" | "tr" (transformer) | "pred" (final predictor)  *)
(*             | "pass" (the string 'passthrough')                                       *)
(*   parent[i], rank[i]   position among the parent's steps / transformers (0-based)     *)
(* Node 1 is the root.  The table grows by AddNode, so every reachable state is a (maybe *)
(* incomplete) AST; requirements are evaluated on the complete ones.                     *)
EXTENDS Integers, Sequences, FiniteSets, TLC

CONSTANTS MaxNodes, MaxDepth, MaxWidth

VARIABLES kind, parent, rank
vars == <<kind, parent, rank>>
Nodes == DOMAIN kind
Containers == {"pipe", "union", "colt"}
Kids(i) == {c \in Nodes : parent[c] = i}
NKids(i) == Cardinality(Kids(i))
Kid(i, r) == CHOOSE c \in Kids(i) : rank[c] = r
RECURSIVE DepthOf(_)
DepthOf(i) == IF i = 1 THEN 1 ELSE 1 + DepthOf(parent[i])

Init == kind \in {<<"pipe">>, <<"union">>, <<"colt">>, <<"tr">>} /\ parent = <<0>> /\ rank = <<0>>

\* what may be appended under a container (scikit-learn's own rules): a predictor only as a step of the root
\* pipeline (and then nothing after it); 'passthrough' as a pipeline step or a column-transformer entry
Allowed(p, k) == /\ kind[p] \in Containers /\ NKids(p) < MaxWidth
                 /\ (k \in Containers => DepthOf(p) + 1 < MaxDepth)
                 /\ (k = "pred" => p = 1 /\ kind[1] = "pipe")
                 /\ (k = "pass" => kind[p] \in {"pipe", "colt"})
                 /\ ~(\E c \in Kids(p) : kind[c] = "pred")
AddNode(p, k) == /\ Len(kind) < MaxNodes /\ p \in Nodes /\ Allowed(p, k)
                 /\ kind' = Append(kind, k) /\ parent' = Append(parent, p) /\ rank' = Append(rank, NKids(p))
Next == \E p \in Nodes, k \in {"pipe", "union", "colt", "tr", "pred", "pass"} : AddNode(p, k)
Spec == Init /\ [][Next]_vars

Complete == \A i \in Nodes : kind[i] \in Containers => NKids(i) >= 1

-----------------------------------------------------------------------------
(* enumerate_pipeline_models: the node itself, then its steps in order, coordinates (0, i1, i2, ...) *)
RECURSIVE Enum(_, _)
RECURSIVE EnumKids(_, _, _)
Enum(i, coor) == <<[node |-> i, coor |-> coor]>> \o EnumKids(i, coor, 0)
EnumKids(i, coor, r) == IF r >= NKids(i) THEN <<>> ELSE Enum(Kid(i, r), Append(coor, r)) \o EnumKids(i, coor, r + 1)
Enumeration == Enum(1, <<0>>)
\* pipeline2str: one line per yielded model, indented by 3 * (len(coor) - 1)
Indent(e) == 3 * (Len(e.coor) - 1)

EnumOnce == Complete => LET E == Enumeration IN
               /\ Len(E) = Cardinality(Nodes)
               /\ \A i \in Nodes : Cardinality({j \in 1 .. Len(E) : E[j].node = i}) = 1
ParentsFirst == Complete => LET E == Enumeration IN
               \A a, b \in 1 .. Len(E) : E[b].node # 1 /\ E[a].node = parent[E[b].node] => a < b
CoordinatesDistinct == Complete => LET E == Enumeration IN \A a, b \in 1 .. Len(E) : a # b => E[a].coor # E[b].coor
CoordLenIsDepth == Complete => LET E == Enumeration IN \A a \in 1 .. Len(E) : Len(E[a].coor) = DepthOf(E[a].node)
=============================================================================
