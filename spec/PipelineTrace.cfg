SPECIFICATION TSpec
CONSTANTS MaxNodes = 0
 MaxDepth = 0
 MaxWidth = 0
CHECK_DEADLOCK FALSE
