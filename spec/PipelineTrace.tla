------------------------------ MODULE PipelineTrace ------------------------------
(* code -> spec for the pipeline helpers.  A trace carries the AST (node table) from     *)
(* which the harness built a REAL scikit-learn pipeline of tagged stub steps, and what   *)
(* the library said about it:                                                            *)
(*   enum     enumerate_pipeline_models: [coor, class name] in yield order               *)
(*   lines    pipeline2str: [indent, text] per line                                      *)
(*   debug    alter_pipeline_for_debugging: per node the ids of the recorded last input  *)
(*            and output arrays, whether output = step(input), results before / after    *)
(*   dot      pipeline2dot parsed into nodes (id, shape, fields, label) and edges        *)
EXTENDS PipelineAst, TraceKit
VARIABLES tid, l
T == Batch[tid]
TInit == /\ tid \in 1 .. Len(Batch) /\ l = 1
         /\ kind = Batch[tid].kind /\ parent = Batch[tid].parent /\ rank = Batch[tid].rank
ClassOf(k) == CASE k = "pipe" -> "Pipeline" [] k = "union" -> "FeatureUnion" [] k = "colt" -> "ColumnTransformer"
                [] k = "tr" -> "TagT" [] k = "pred" -> "TagP" [] k = "pass" -> "PassThrough"
E == Enumeration
\* ---- enumeration and text
BadEnum == {j \in 1 .. Len(E) : ~(j \in DOMAIN T.enum /\ T.enum[j].coor = E[j].coor /\ T.enum[j].cls = ClassOf(kind[E[j].node]))}
BadLines == {j \in 1 .. Len(E) : ~(j \in DOMAIN T.lines /\ T.lines[j].indent = Indent(E[j]) /\ T.lines[j].cls = ClassOf(kind[E[j].node]))}
\* ---- debugging wrappers: consecutive steps of a pipeline chain, the pipeline's own record is its ends
Dbg(i) == T.debug[i]
Steps(p) == [r \in 0 .. NKids(p) - 1 |-> Kid(p, r)]
Recorded(i) == kind[i] # "pass" /\ Dbg(i).seen
BadChain == {p \in Nodes : kind[p] = "pipe" /\ Recorded(p) /\
               \E r \in 0 .. NKids(p) - 2 : Recorded(Steps(p)[r]) /\ Recorded(Steps(p)[r + 1]) /\ Dbg(Steps(p)[r]).outid # Dbg(Steps(p)[r + 1]).inid}
BadEnds == {p \in Nodes : kind[p] = "pipe" /\ Recorded(p) /\ NKids(p) >= 1 /\
               \/ (Recorded(Steps(p)[0]) /\ Dbg(Steps(p)[0]).inid # Dbg(p).inid)
               \/ (Recorded(Steps(p)[NKids(p) - 1]) /\ Dbg(Steps(p)[NKids(p) - 1]).outid # Dbg(p).outid)}
BadRecord == {i \in Nodes : Recorded(i) /\ ~Dbg(i).consistent}
\* every model on the path of the data must have seen it (steps that can act on the data: all but 'passthrough')
Unseen == {i \in Nodes : kind[i] # "pass" /\ ~Dbg(i).seen}
\* ---- the drawing
GN == T.dot.nodes
GE == T.dot.edges
Ids == {GN[j].id : j \in 1 .. Len(GN)}
NodeOf(id) == GN[CHOOSE j \in 1 .. Len(GN) : GN[j].id = id]
FieldOK(id, f) == f = "" \/ (\E j \in 1 .. Len(GN) : GN[j].id = id /\ f \in {GN[j].fields[q] : q \in 1 .. Len(GN[j].fields)})
Dangling == {j \in 1 .. Len(GE) : ~(GE[j].s \in Ids /\ GE[j].d \in Ids /\ FieldOK(GE[j].s, GE[j].sf) /\ FieldOK(GE[j].d, GE[j].df))}
Dup == {id \in Ids : Cardinality({j \in 1 .. Len(GN) : GN[j].id = id}) > 1}
Succ(S) == S \cup {GE[j].d : j \in {q \in 1 .. Len(GE) : GE[q].s \in S}}
RECURSIVE Reach(_)
Reach(S) == IF Succ(S) = S THEN S ELSE Reach(Succ(S))
OnCycle == {id \in Ids : id \in Reach({GE[j].d : j \in {q \in 1 .. Len(GE) : GE[q].s = id}})}
Leaves == {i \in Nodes : kind[i] \in {"tr", "pred", "pass"}}
LabelCount(lab) == Cardinality({j \in 1 .. Len(GN) : GN[j].shape = "box" /\ GN[j].label = lab})
StepsDrawn == /\ LabelCount("TagT") = Cardinality({i \in Nodes : kind[i] = "tr"})
              /\ LabelCount("TagP") = Cardinality({i \in Nodes : kind[i] = "pred"})
              /\ LabelCount("Identity") >= Cardinality({i \in Nodes : kind[i] = "pass"})
InputsDrawn == "sch0" \in Ids /\ NodeOf("sch0").labels = T.columns
Sinks == {id \in Ids : ~(\E j \in 1 .. Len(GE) : GE[j].s = id)}
OutputsReachable == Sinks # {} /\ Sinks \subseteq Reach({"sch0"})
Observe == /\ l = 1
           /\ Require(Len(T.enum) = Len(E) /\ BadEnum = {}, T.id, "EnumerationIsPreorder", l, [got |-> T.enum, want |-> E, bad |-> BadEnum])
           /\ Require(Len(T.lines) = Len(E) /\ BadLines = {}, T.id, "StrOneLinePerModel", l, [got |-> T.lines, bad |-> BadLines])
           /\ Require(CoordinatesDistinct /\ CoordLenIsDepth /\ EnumOnce /\ ParentsFirst, T.id, "SpecEnumerationRequirements", l, <<>>)
           /\ T.has_debug =>
                /\ Require(T.same_output, T.id, "DebugTransparent", l, <<>>)
                \* a deep copy of the altered pipeline is a pipeline of its own (outputs, records), also after the
                \* original is trained again; scikit-learn's own scorers see the same predictions as before
                /\ Require(T.copy_ok, T.id, "DebugCopyIsIndependent", l, <<>>)
                \* after a call that raised inside a step, the pipeline's record is the input of that call
                /\ Require(T.failed_call_recorded, T.id, "DebugRecordsFailedCall", l, <<>>)
                /\ Require(T.scorers_ok, T.id, "DebugTransparentForScorers", l, <<>>)
                /\ Require(Unseen = {}, T.id, "DebugRecordsEveryStep", l, [nodes |-> Unseen])
                /\ Require(BadRecord = {}, T.id, "DebugRecordsActualInputOutput", l, [nodes |-> BadRecord])
                /\ Require(BadChain = {} /\ BadEnds = {}, T.id, "DebugChains", l, [chain |-> BadChain, ends |-> BadEnds])
                /\ Require(T.second_alter_refused, T.id, "AlterTwiceRefused", l, <<>>)
           /\ T.has_dot =>
                /\ Require(T.dot.parsed, T.id, "DotParses", l, [err |-> T.dot.err])
                /\ T.dot.parsed =>
                     /\ Require(Dangling = {}, T.id, "EdgeEndpointsDeclared", l, [edges |-> {GE[j] : j \in Dangling}])
                     /\ Require(Dup = {}, T.id, "NodeIdsUnique", l, [ids |-> Dup])
                     /\ Require(OnCycle = {}, T.id, "Acyclic", l, [ids |-> OnCycle])
                     /\ Require(StepsDrawn, T.id, "EveryStepDrawn", l, [tagT |-> LabelCount("TagT"), tagP |-> LabelCount("TagP"), identity |-> LabelCount("Identity")])
                     /\ Require(InputsDrawn, T.id, "EveryInputColumnDrawn", l, <<>>)
                     /\ Require(OutputsReachable, T.id, "OutputsReachableFromInputs", l, [sinks |-> Sinks, reach |-> Reach({"sch0"})])
           /\ Accepted(T.id)
           /\ l' = 2 /\ UNCHANGED <<vars, tid>>
TSpec == TInit /\ [][Observe]_<<vars, tid, l>>
=============================================================================
