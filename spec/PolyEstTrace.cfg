SPECIFICATION TSpec
CONSTANTS MaxN = 100
          MaxDeg = 100
CHECK_DEADLOCK FALSE
