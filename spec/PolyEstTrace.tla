----------------------------- MODULE PolyEstTrace -----------------------------
(* code -> spec for the public estimator, as a HISTORY on one instance:                  *)
(*   ( set_params(kind, degree, interaction_only, include_bias) ; fit(X) ;               *)
(*     transform(X) ; get_feature_names_out() ; n_output_features_ )*                    *)
(* Each block is one event; the state of the specification is the configuration of the   *)
(* last fit.  Whatever was fitted before, the block's observations must be those of a    *)
(* fresh estimator with that configuration: columns (factorised on a row of distinct     *)
(* primes) = names = scikit-learn's enumeration Comb, width = Len(Comb).                 *)
EXTENDS PolyFeatures, TraceKit
VARIABLES tid, l
T == Batch[tid]
TInit == /\ tid \in 1 .. Len(Batch) /\ l = 1
         /\ n = 1 /\ degree = 1 /\ io = FALSE /\ bias = FALSE
         /\ pc = "done" /\ d = 0 /\ i = 0 /\ pos = 0 /\ index = <<>> /\ nindex = <<>>
         /\ cols = <<>> /\ calls = <<>> /\ names = <<>>
Block == /\ l <= Len(T.ev)
         /\ LET e == T.ev[l] IN
            /\ n' = e.n /\ degree' = e.degree /\ io' = e.io /\ bias' = e.bias
            /\ UNCHANGED <<pc, d, i, pos, index, nindex, cols, calls, names, tid>>
            /\ Require(e.cols = Comb', T.id, "SameColumns", l, [got |-> e.cols, want |-> Comb'])
            /\ Require(e.names = Comb', T.id, "NamesMatch", l, [got |-> e.names, want |-> Comb'])
            \* names built from caller-supplied input names (one a prefix of another): same monomials
            /\ Require(e.names_given = Comb', T.id, "GivenNamesMatch", l, [got |-> e.names_given, want |-> Comb'])
            \* a second transform (other values, same shape) is right too and leaves the first result alone
            /\ Require(e.kept, T.id, "EarlierResultKept", l, <<>>)
            /\ Require(e.nout = Len(Comb'), T.id, "NOutput", l, [got |-> e.nout, want |-> Len(Comb')])
            /\ Require(e.skcols = Comb', T.id, "SpecCombIsSklearnPowers", l, [got |-> e.skcols])
            /\ Require(e.eqsk, T.id, "ValuesEqualSklearn", l, <<>>)
            /\ (IF l = Len(T.ev) THEN Accepted(T.id) ELSE TRUE)
            /\ l' = l + 1
TSpec == TInit /\ [][Block]_<<vars, tid, l>>
=============================================================================
