----------------------------- MODULE PolyEstTrace -----------------------------
(* code -> spec for the public estimator: ExtendedFeatures(kind, degree, ...).fit(X)     *)
(* .transform(X) / get_feature_names_out() / n_output_features_, observed on a row of    *)
(* distinct primes (columns factorised back into bags of input indices) and compared     *)
(* with the REQUIREMENT Comb of PolyFeatures (scikit-learn's enumeration).               *)
EXTENDS PolyFeatures, TraceKit
VARIABLES tid, l
T == Batch[tid]
TInit == /\ tid \in 1 .. Len(Batch) /\ l = 1
         /\ n = Batch[tid].n /\ degree = Batch[tid].degree /\ io = Batch[tid].io /\ bias = Batch[tid].bias
         /\ pc = "done" /\ d = 0 /\ i = 0 /\ pos = 0 /\ index = <<>> /\ nindex = <<>>
         /\ cols = <<>> /\ calls = <<>> /\ names = <<>>
Observe == /\ l = 1
           /\ Require(T.cols = Comb, T.id, "SameColumns", l, [got |-> T.cols, want |-> Comb])
           /\ Require(T.names = Comb, T.id, "NamesMatch", l, [got |-> T.names, want |-> Comb])
           /\ Require(T.nout = Len(Comb), T.id, "NOutput", l, [got |-> T.nout, want |-> Len(Comb)])
           /\ Require(T.skcols = Comb, T.id, "SpecCombIsSklearnPowers", l, [got |-> T.skcols])
           /\ Require(T.eqsk, T.id, "ValuesEqualSklearn", l, <<>>)
           /\ Accepted(T.id)
           /\ l' = 2 /\ UNCHANGED <<vars, tid>>
TSpec == TInit /\ [][Observe]_<<vars, tid, l>>
=============================================================================
