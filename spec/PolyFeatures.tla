---------------------------- MODULE PolyFeatures ----------------------------
(* ExtendedFeatures(kind='poly') - mlinsights/mlmodel/_extended_features_polynomial.py   *)
(* and extended_features.py.  The kernels never look at the data: they only multiply     *)
(* already-produced column blocks by one input column.  A column is therefore modelled   *)
(* as the BAG of input indices of its monomial (a non-decreasing tuple), and a           *)
(* configuration verified here holds for every real matrix.                              *)
(*                                                                                       *)
(* Mechanism: _transform_iall / _transform_ionly (one action per statement / per inner   *)
(* loop iteration, `index`, `pos`, the early break) followed by the separately coded     *)
(* recurrence of _get_feature_names_poly (which also defines n_output_features_).        *)
(* Requirement: the columns are scikit-learn's PolynomialFeatures combinations, in       *)
(* scikit-learn's order: by degree, then lexicographically, with / without replacement.  *)
EXTENDS Integers, Sequences, FiniteSets, SequencesExt, TLC

CONSTANTS MaxN, MaxDeg

VARIABLES n, degree, io, bias,            \* the configuration
          pc, d, i, pos, index, nindex,   \* kernel state (positions are 0-based as in the code)
          cols,                           \* cols[p+1] = bag of the column at position p
          calls,                          \* history: the multiply(...) calls, for spec->code replay
          names                           \* names[p+1] = token sequence of the name at position p
vars == <<n, degree, io, bias, pc, d, i, pos, index, nindex, cols, calls, names>>

Ins(b, x) == SortSeq(Append(b, x), <)


-----------------------------------------------------------------------------
(* Requirement: scikit-learn's enumeration *)
Tuples(nn, k, strict) == {t \in [1 .. k -> 0 .. nn - 1] :
                             \A j \in 1 .. k - 1 : IF strict THEN t[j] < t[j + 1] ELSE t[j] <= t[j + 1]}
LexLess(s, t) == \E j \in 1 .. Len(s) : s[j] < t[j] /\ \A m \in 1 .. j - 1 : s[m] = t[m]
CombDeg(nn, k, strict) == SetToSortSeq(Tuples(nn, k, strict), LexLess)
RECURSIVE CombFrom(_, _, _, _)
CombFrom(nn, k, kmax, strict) == IF k > kmax THEN <<>>
                                 ELSE CombDeg(nn, k, strict) \o CombFrom(nn, k + 1, kmax, strict)
Comb == CombFrom(n, IF bias THEN 0 ELSE 1, degree, io)

-----------------------------------------------------------------------------
Init == /\ n \in 1 .. MaxN /\ degree \in 1 .. MaxDeg /\ io \in BOOLEAN /\ bias \in BOOLEAN
        /\ pc = "bias" /\ d = 0 /\ i = 0 /\ pos = 0 /\ index = <<>> /\ nindex = <<>>
        /\ cols = <<>> /\ calls = <<>> /\ names = <<>>

cfgvars == <<n, degree, io, bias>>

\* if bias: XP[:, 0] = 1; pos = 1
Bias == /\ pc = "bias"
        /\ IF bias THEN cols' = <<<<>>>> /\ pos' = 1 ELSE cols' = <<>> /\ pos' = 0
        /\ calls' = IF bias THEN Append(calls, [op |-> "bias", a |-> 0, b |-> 1, i |-> -1, pos |-> 0, npos |-> 1])
                          ELSE calls
        /\ pc' = "deg" /\ d' = 0
        /\ UNCHANGED <<cfgvars, i, index, nindex, names>>

\* for d in range(0, degree)
DegLoop == /\ pc = "deg"
           /\ IF d >= degree THEN pc' = "names" /\ UNCHANGED <<d, i, nindex>>
              ELSE IF d = 0 THEN pc' = "copy" /\ UNCHANGED <<d, i, nindex>>
              ELSE pc' = "inner" /\ i' = 0 /\ nindex' = <<>> /\ UNCHANGED d
           /\ UNCHANGED <<cfgvars, pos, index, cols, calls, names>>

\* XP[:, pos:pos+n] = X ; index = range(pos, pos+n) + [pos+n] ; pos += n
Copy == /\ pc = "copy"
        /\ cols' = cols \o [k \in 1 .. n |-> <<k - 1>>]
        /\ index' = [k \in 1 .. n + 1 |-> pos + k - 1]
        /\ pos' = pos + n
        /\ calls' = Append(calls, [op |-> "copy", a |-> pos, b |-> pos + n, i |-> -1, pos |-> pos, npos |-> pos + n])
        /\ d' = d + 1 /\ pc' = "deg"
        /\ UNCHANGED <<cfgvars, i, nindex, names>>

\* body of `for i in range(0, n)` - the code reads index[i] (and index[i+1] when interaction_only)
IdxOK == IF io THEN i + 2 <= Len(index) ELSE i + 1 <= Len(index)
Inner == /\ pc = "inner" /\ i < n
         /\ IF ~IdxOK THEN pc' = "crash" /\ UNCHANGED <<i, pos, nindex, cols, calls>>     \* IndexError
            ELSE LET a    == index[i + 1]
                     end  == Last(index)
                     dec  == IF io THEN index[i + 2] - index[i + 1] ELSE 0
                     npos == pos + end - a - dec
                 IN IF io /\ npos <= pos
                    THEN \* new_index.append(pos); break
                         /\ nindex' = Append(nindex, pos) /\ pc' = "enddeg"
                         /\ UNCHANGED <<i, pos, cols, calls>>
                    ELSE /\ nindex' = Append(nindex, pos)
                         /\ cols' = cols \o [k \in 1 .. (end - a - dec) |-> Ins(cols[a + dec + k], i)]
                         /\ calls' = Append(calls, [op |-> "mul", a |-> a + dec, b |-> end, i |-> i, pos |-> pos, npos |-> npos])
                         /\ pos' = npos /\ i' = i + 1 /\ pc' = "inner"
         /\ UNCHANGED <<cfgvars, d, index, names>>
InnerEnd == /\ pc = "inner" /\ i >= n /\ pc' = "enddeg"
            /\ UNCHANGED <<cfgvars, d, i, pos, index, nindex, cols, calls, names>>
\* new_index.append(pos); index = new_index
EndDeg == /\ pc = "enddeg"
          /\ index' = Append(nindex, pos) /\ d' = d + 1 /\ pc' = "deg"
          /\ UNCHANGED <<cfgvars, i, pos, nindex, cols, calls, names>>

-----------------------------------------------------------------------------
(* _get_feature_names_poly, executed as one action: its recurrence written as a function *)
RECURSIVE NamesInner(_, _, _, _)
\* one pass of `for i in range(0, n)` at a degree > 0: returns <<names, new_index>>
NamesInner(nm, idx, nidx, ii) ==
   IF ii >= n THEN <<nm, Append(nidx, Len(nm))>>
   ELSE LET a     == idx[ii + 1]
            end   == Last(idx)
            start == a + (IF io THEN idx[ii + 2] - idx[ii + 1] ELSE 0)
            add   == [k \in 1 .. (IF end > start THEN end - start ELSE 0) |-> Append(nm[start + k], ii)]
        IN NamesInner(nm \o add, idx, Append(nidx, Len(nm)), ii + 1)
RECURSIVE NamesDeg(_, _, _)
NamesDeg(nm, idx, dd) ==
   IF dd >= degree THEN nm
   ELSE IF dd = 0 THEN NamesDeg(nm \o [k \in 1 .. n |-> <<k - 1>>],
                                [k \in 1 .. n + 1 |-> Len(nm) + k - 1], 1)
   ELSE LET r == NamesInner(nm, idx, <<>>, 0) IN NamesDeg(r[1], r[2], dd + 1)
NamesOf == LET raw == NamesDeg(IF bias THEN <<<<>>>> ELSE <<>>, <<>>, 0)
           IN [k \in 1 .. Len(raw) |-> SortSeq(raw[k], <)]          \* process_name sorts the factors

Names == /\ pc = "names" /\ names' = NamesOf /\ pc' = "done"
         /\ UNCHANGED <<cfgvars, d, i, pos, index, nindex, cols, calls>>
Return == pc \in {"done", "crash"} /\ UNCHANGED vars

Next == Bias \/ DegLoop \/ Copy \/ Inner \/ InnerEnd \/ EndDeg \/ Names \/ Return
Spec == Init /\ [][Next]_vars

-----------------------------------------------------------------------------
NoCrash       == pc # "crash"
SameColumns   == pc = "done" => cols = Comb
PosIsWidth    == pc = "done" => pos = Len(cols)
\* n_output_features_ is the length of the names: the allocated width must be the filled width
NOutputMatches == pc = "done" => Len(names) = pos
NamesMatch    == pc = "done" => names = Comb
PosInvariant  == pos = Len(cols)
=============================================================================
