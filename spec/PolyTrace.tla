------------------------------ MODULE PolyTrace ------------------------------
(* code -> spec for the polynomial kernels.  A trace is one real call of                 *)
(* _transform_iall / _transform_ionly with a recording `multiply` callback and a         *)
(* recording output array: every write the kernel performs is one event                  *)
(*    bias  XP[:, 0] = 1          copy  XP[:, a:b] = X          mul  multiply(XP[:, a:b], X[:, i], XP[:, pos:npos])  *)
(* and must be exactly the write the specification's next call-producing action makes    *)
(* (the `calls` history variable of PolyFeatures); loop bookkeeping actions are silent.  *)
(* The last event "final" carries the factorised output columns, the parsed feature      *)
(* names, n_output_features_ and the comparison with scikit-learn.                       *)
EXTENDS PolyFeatures, TraceKit

VARIABLES tid, l
T == Batch[tid]
NEv == Len(T.ev)

TInit == /\ tid \in 1 .. Len(Batch) /\ l = 1
         /\ n = Batch[tid].n /\ degree = Batch[tid].degree /\ io = Batch[tid].io /\ bias = Batch[tid].bias
         /\ pc = "bias" /\ d = 0 /\ i = 0 /\ pos = 0 /\ index = <<>> /\ nindex = <<>>
         /\ cols = <<>> /\ calls = <<>> /\ names = <<>>

Match(c, e) == e.a = c.op /\ e.lo = c.a /\ e.hi = c.b /\ e.i = c.i /\ e.pos = c.pos /\ e.npos = c.npos

Work == /\ l >= 1 /\ pc \notin {"done", "crash"}
        /\ (Bias \/ DegLoop \/ Copy \/ Inner \/ InnerEnd \/ EndDeg \/ Names)
        /\ IF calls' # calls
           THEN IF l < NEv /\ Match(calls'[Len(calls')], T.ev[l])
                THEN l' = l + 1
                ELSE /\ Rejected(T.id, l, [want |-> calls'[Len(calls')],
                                           got |-> IF l <= NEv THEN T.ev[l] ELSE [a |-> "none"]])
                     /\ l' = -1
           ELSE l' = l
        /\ UNCHANGED tid

Crash == /\ l >= 1 /\ pc = "crash" /\ Rejected(T.id, l, [want |-> "IndexError in the model"]) /\ l' = -1
         /\ UNCHANGED <<vars, tid>>

Final == /\ l >= 1 /\ pc = "done"
         /\ IF l # NEv \/ T.ev[l].a # "final"
            THEN Rejected(T.id, l, [want |-> "final", got |-> IF l <= NEv THEN T.ev[l] ELSE [a |-> "none"]]) /\ l' = -1
            ELSE LET e == T.ev[l] IN
                 /\ Require(e.cols = cols, T.id, "SameColumns", l, [got |-> e.cols, want |-> cols])
                 /\ Require(e.width = pos, T.id, "WidthIsFilled", l, [got |-> e.width, want |-> pos])
                 /\ Require(cols = Comb, T.id, "SpecColumnsAreSklearn", l, <<>>)
                 /\ Accepted(T.id)
                 /\ l' = NEv + 1
         /\ UNCHANGED <<vars, tid>>

TNext == (Work \/ Crash \/ Final) /\ l <= NEv
TSpec == TInit /\ [][TNext]_<<vars, tid, l>>
=============================================================================
