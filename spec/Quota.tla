-------------------------------- MODULE Quota --------------------------------
(* ConstraintKMeans, strategy 'distance' (and 'distance_p' = balanced predictions):      *)
(* mlinsights/mlmodel/_kmeans_constraint_.py  _constraint_association_distance and       *)
(* _switch_clusters.  The geometry is abstracted away completely: which point is         *)
(* processed next and in which order it prefers the clusters are unconstrained, so the   *)
(* model covers every data set, every centre position and every tie.                     *)
(*                                                                                       *)
(* Mechanism (one action per decision of the code):                                      *)
(*   Pass          `nover = leftover` at the top of `while labels.min() == -1`           *)
(*   AssignQuota   counters[c] < limit                                                   *)
(*   AssignExtra   cluster full, nover > 0, leftclose[c] == -1 (one extra per cluster)   *)
(*   Skip          no cluster takes the point in this pass                               *)
(*   Switch        _switch_clusters exchanges the labels of two points                   *)
(* Requirement: every cluster ends with floor(N/K) or ceil(N/K) points.                  *)
EXTENDS Integers, FiniteSets, TLC

CONSTANTS MaxN, MaxK,
          DEV_QuotaLE      \* TRUE: `counters[c] <= limit` (an off-by-one a refactoring could introduce)

VARIABLES n, k,       \* the call: number of points and clusters (constant along a behaviour)
          labels,     \* labels[p] \in 0..K, 0 = -1 of the code (not assigned)
          counters, leftclose, nover,
          visited,    \* points already handled in the current pass
          phase       \* "pass" | "assign" | "switch" | "done"
vars == <<n, k, labels, counters, leftclose, nover, visited, phase>>

Points   == 1 .. n
Clusters == 1 .. k
Limit    == n \div k
Leftover == n - Limit * k

Init == /\ n \in 1 .. MaxN /\ k \in 1 .. MaxK /\ k <= n
        /\ labels = [p \in 1 .. n |-> 0] /\ counters = [c \in 1 .. k |-> 0]
        /\ leftclose = [c \in 1 .. k |-> -1] /\ nover = 0 /\ visited = {} /\ phase = "pass"

Unassigned == {p \in Points : labels[p] = 0}

Pass == /\ phase = "pass"
        /\ IF Unassigned = {} THEN phase' = "switch" /\ UNCHANGED <<nover, visited>>
           ELSE phase' = "assign" /\ nover' = Leftover /\ visited' = {}
        /\ UNCHANGED <<n, k, labels, counters, leftclose>>

HasQuota(c) == IF DEV_QuotaLE THEN counters[c] <= Limit ELSE counters[c] < Limit
HasExtra(c) == ~HasQuota(c) /\ nover > 0 /\ leftclose[c] = -1
Eligible(c) == HasQuota(c) \/ HasExtra(c)
Todo        == Unassigned \ visited

AssignQuota(p, c) ==
   /\ phase = "assign" /\ p \in Todo /\ HasQuota(c)
   /\ labels' = [labels EXCEPT ![p] = c] /\ counters' = [counters EXCEPT ![c] = @ + 1]
   /\ visited' = visited \cup {p} /\ UNCHANGED <<n, k, leftclose, nover, phase>>
AssignExtra(p, c) ==
   /\ phase = "assign" /\ p \in Todo /\ HasExtra(c)
   /\ labels' = [labels EXCEPT ![p] = c] /\ counters' = [counters EXCEPT ![c] = @ + 1]
   /\ nover' = nover - 1 /\ leftclose' = [leftclose EXCEPT ![c] = 0]
   /\ visited' = visited \cup {p} /\ UNCHANGED <<n, k, phase>>
Skip(p) == /\ phase = "assign" /\ p \in Todo /\ \A c \in Clusters : ~Eligible(c)
           /\ visited' = visited \cup {p} /\ UNCHANGED <<n, k, labels, counters, leftclose, nover, phase>>
EndPass == /\ phase = "assign" /\ Todo = {} /\ phase' = "pass"
           /\ UNCHANGED <<n, k, labels, counters, leftclose, nover, visited>>
\* _switch_clusters: labels[i], labels[j] = c2, c1  (counters are not touched by the code)
Switch(a, b) == /\ phase = "switch" /\ labels[a] # labels[b]
                /\ labels' = [labels EXCEPT ![a] = labels[b], ![b] = labels[a]]
                /\ UNCHANGED <<n, k, counters, leftclose, nover, visited, phase>>
Finish == /\ phase = "switch" /\ phase' = "done" /\ UNCHANGED <<n, k, labels, counters, leftclose, nover, visited>>
Return == phase = "done" /\ UNCHANGED vars

\* named wrappers so that TLC's coverage reports every action separately
DoSkip        == \E p \in Points : Skip(p)
DoAssignQuota == \E p \in Points, c \in Clusters : AssignQuota(p, c)
DoAssignExtra == \E p \in Points, c \in Clusters : AssignExtra(p, c)
DoSwitch      == \E a, b \in Points : Switch(a, b)
Next == Pass \/ EndPass \/ Finish \/ Return \/ DoSkip \/ DoAssignQuota \/ DoAssignExtra \/ DoSwitch
Spec == Init /\ [][Next]_vars
\* weak fairness on each step of the code's loops; the exchange loop of _switch_clusters is bounded in the
\* code (at most 10 sweeps), which is what WF on Finish expresses
FairSpec == Spec /\ WF_vars(Pass) /\ WF_vars(EndPass) /\ WF_vars(Finish)
                 /\ WF_vars(DoSkip \/ DoAssignQuota \/ DoAssignExtra)

-----------------------------------------------------------------------------
Size(c)     == Cardinality({p \in Points : labels[p] = c})
Histogram   == \A c \in Clusters : counters[c] = Size(c)
ValidLabels == \A p \in Points : labels[p] \in 0 .. k
Balanced    == phase \in {"switch", "done"} =>
                  /\ \A c \in Clusters : Size(c) \in {Limit, Limit + 1}
                  /\ Cardinality({c \in Clusters : Size(c) = Limit + 1}) = Leftover
                  /\ Unassigned = {}
\* the while loop never needs a second pass: some cluster always takes the point
NoSkip      == phase = "assign" => \A p \in Todo : \E c \in Clusters : Eligible(c)
ExtraOnce   == \A c \in Clusters : counters[c] <= Limit + 1
Terminates  == <>(phase = "done")
=============================================================================
