----------------------------- MODULE QuotaFitTrace -----------------------------
(* code -> spec, estimator level: what ConstraintKMeans.fit / predict return.            *)
(* kind "fit":     labels_ (valid indices; sizes floor/ceil of n/k for the strategies    *)
(*                 'distance' and 'gain' - field sized), finite centres,                 *)
(*                 n_iter_ <= max_iter.                                                  *)
(* kind "predict": balanced predictions obey the size constraint on the batch;           *)
(*                 plain predictions are a nearest centre (squared distances scaled by   *)
(*                 2^20 and rounded: the projection of DESIGN 2.4, one unit of slack).   *)
EXTENDS Integers, Sequences, FiniteSets, TraceKit
VARIABLES tid, l
T == Batch[tid]
TInit == tid \in 1 .. Len(Batch) /\ l = 1
Cnt(lab, c) == Cardinality({p \in 1 .. Len(lab) : lab[p] = c})
SizesOK(lab, nn, kk) == LET ave == nn \div kk  over == nn - ave * kk IN
     /\ \A c \in 0 .. kk - 1 : Cnt(lab, c) \in {ave, ave + 1}
     /\ Cardinality({c \in 0 .. kk - 1 : Cnt(lab, c) = ave + 1}) = over
Valid(lab, kk) == \A p \in 1 .. Len(lab) : lab[p] \in 0 .. kk - 1
Nearest(lab, dist) == \A p \in 1 .. Len(lab) : \A c \in 1 .. Len(dist[p]) : dist[p][lab[p] + 1] <= dist[p][c] + 1
Observe == /\ l = 1
           /\ Require(Len(T.labels) = T.n /\ Valid(T.labels, T.k), T.id, "ValidLabels", l, [labels |-> T.labels])
           /\ IF T.kind = "fit"
              THEN /\ Require(~T.sized \/ SizesOK(T.labels, T.n, T.k), T.id, "Balanced", l, [sizes |-> [c \in 0 .. T.k - 1 |-> Cnt(T.labels, c)]])
                   /\ Require(T.finite, T.id, "CentresFinite", l, <<>>)
                   /\ Require(T.n_iter <= T.max_iter, T.id, "NIterBound", l, [n_iter |-> T.n_iter, max_iter |-> T.max_iter])
              ELSE IF T.balanced
              THEN Require(SizesOK(T.labels, T.n, T.k), T.id, "BalancedPredictions", l, [sizes |-> [c \in 0 .. T.k - 1 |-> Cnt(T.labels, c)]])
              ELSE Require(Nearest(T.labels, T.dist), T.id, "PredictIsNearest", l, <<>>)
           /\ Accepted(T.id)
           /\ l' = 2 /\ UNCHANGED tid
TSpec == TInit /\ [][Observe]_<<tid, l>>
=============================================================================
