------------------------------ MODULE QuotaGain ------------------------------
(* ConstraintKMeans, strategy 'gain' (and 'gain_p'): _constraint_association_gain.       *)
(* Starts from an ARBITRARY complete labelling (k-means output, random labels, argmin    *)
(* labels of a prediction batch).  Geometry is abstracted: the (point, destination)      *)
(* pairs are processed in an arbitrary order and the sign of `g + gain` is arbitrary.    *)
(*                                                                                       *)
(*   Setup     caps: cluster c may hold ave + leftclose[c] points, leftclose[c] in {0,1}, *)
(*             sum(leftclose) = n - ave*k (the intended outcome of the `loopf` loops)    *)
(*   Move      a point leaves an over-full cluster for an under-full one                 *)
(*   XSwap     two points exchange clusters through the transfer list                    *)
(*   Enqueue   the pair waits in transfer[cur, dest]                                     *)
(*   Switch    _switch_clusters                                                          *)
(* A pair whose point has already moved, or whose destination is the point's current     *)
(* cluster, is skipped by the code whenever it is reached and can never become live      *)
(* again; such pairs are simply never `Active` (this removes an inert interleaving).     *)
EXTENDS Integers, FiniteSets, TLC

CONSTANTS MaxN, MaxK,
          ExploreSwitch,    \* FALSE: leave _switch_clusters out of the exploration (label exchanges never
                            \* change sizes - checked where TRUE - and multiply the final states)
          DEV_CapsAsCoded   \* TRUE: leftclose = max(counters - ave, 0) without the upper clip
                            \* (what the code computed when the excess already sums to n - ave*k)

VARIABLES n, k,
          labels, counters, leftclose,
          moved,       \* distances_close[ind] used as a flag "already moved"
          todo,        \* pairs <<point, dest>> not yet reached in the sorted list
          transfer,    \* transfer[<<cur, dest>>] = set of waiting points
          phase        \* "setup" | "pairs" | "switch" | "done"
vars == <<n, k, labels, counters, leftclose, moved, todo, transfer, phase>>

Points   == 1 .. n
Clusters == 1 .. k
Ave      == n \div k
NOver    == n - Ave * k

Init == /\ n \in 1 .. MaxN /\ k \in 1 .. MaxK /\ k <= n
        /\ labels \in [1 .. n -> 1 .. k]
        /\ counters = [c \in 1 .. k |-> Cardinality({p \in 1 .. n : labels[p] = c})]
        /\ leftclose = [c \in 1 .. k |-> 0]
        /\ moved = {} /\ todo = (1 .. n) \X (1 .. k) /\ transfer = [cd \in (1 .. k) \X (1 .. k) |-> {}]
        /\ phase = "setup"

RECURSIVE Sum(_, _)
Sum(f, S) == IF S = {} THEN 0 ELSE LET x == CHOOSE x \in S : TRUE IN f[x] + Sum(f, S \ {x})
Clip01(x) == IF x <= 0 THEN 0 ELSE 1
Excess    == [c \in Clusters |-> IF counters[c] > Ave THEN counters[c] - Ave ELSE 0]

\* the caps the quota set-up may legally end with
GoodCaps(L) == /\ \A c \in Clusters : L[c] \in {0, 1}
               /\ Sum(L, Clusters) = NOver
               /\ LET start == [c \in Clusters |-> Clip01(Excess[c])] IN
                  IF Sum(start, Clusters) >= NOver THEN \A c \in Clusters : L[c] <= start[c]
                  ELSE \A c \in Clusters : L[c] >= start[c]
Setup == /\ phase = "setup"
         /\ IF DEV_CapsAsCoded /\ Sum(Excess, Clusters) = NOver
            THEN leftclose' = Excess
            ELSE \E L \in [Clusters -> {0, 1}] : GoodCaps(L) /\ leftclose' = L
         /\ phase' = "pairs"
         /\ UNCHANGED <<n, k, labels, counters, moved, todo, transfer>>

Cap(c) == Ave + leftclose[c]
CanMove(cur, dest) == counters[dest] < Cap(dest) /\ counters[cur] > Cap(cur)
Waiting(dest, cur) == transfer[<<dest, cur>>] \ moved        \* heads already moved are deleted
Active == {pd \in todo : pd[1] \notin moved /\ labels[pd[1]] # pd[2]}

Move(p, dest) == /\ phase = "pairs" /\ <<p, dest>> \in Active
                 /\ CanMove(labels[p], dest)
                 /\ labels' = [labels EXCEPT ![p] = dest]
                 /\ counters' = [counters EXCEPT ![labels[p]] = @ - 1, ![dest] = @ + 1]
                 /\ moved' = moved \cup {p} /\ todo' = todo \ {<<p, dest>>}
                 /\ UNCHANGED <<n, k, leftclose, transfer, phase>>
XSwap(p, dest, q) ==
                 /\ phase = "pairs" /\ <<p, dest>> \in Active
                 /\ ~CanMove(labels[p], dest)
                 /\ q \in Waiting(dest, labels[p])
                 /\ labels' = [labels EXCEPT ![p] = dest, ![q] = labels[p]]
                 /\ moved' = moved \cup {p, q} /\ todo' = todo \ {<<p, dest>>}
                 /\ transfer' = [transfer EXCEPT ![<<dest, labels[p]>>] = @ \ {q}]
                 /\ UNCHANGED <<n, k, counters, leftclose, phase>>
Enqueue(p, dest) ==
                 /\ phase = "pairs" /\ <<p, dest>> \in Active
                 /\ ~CanMove(labels[p], dest)
                 /\ transfer' = [transfer EXCEPT ![<<labels[p], dest>>] = @ \cup {p}]
                 /\ todo' = todo \ {<<p, dest>>}
                 /\ UNCHANGED <<n, k, labels, counters, leftclose, moved, phase>>
EndPairs == /\ phase = "pairs" /\ Active = {} /\ phase' = "switch"
            /\ UNCHANGED <<n, k, labels, counters, leftclose, moved, todo, transfer>>
Switch(a, b) == /\ phase = "switch" /\ labels[a] # labels[b] /\ ExploreSwitch
                /\ labels' = [labels EXCEPT ![a] = labels[b], ![b] = labels[a]]
                /\ UNCHANGED <<n, k, counters, leftclose, moved, todo, transfer, phase>>
Finish == /\ phase = "switch" /\ phase' = "done"
          /\ UNCHANGED <<n, k, labels, counters, leftclose, moved, todo, transfer>>
Return == phase = "done" /\ UNCHANGED vars

\* named wrappers so that TLC's coverage reports every action separately
DoMove    == \E p \in Points, dest \in Clusters : Move(p, dest)
DoXSwap   == \E p \in Points, dest \in Clusters, q \in Points : XSwap(p, dest, q)
DoEnqueue == \E p \in Points, dest \in Clusters : Enqueue(p, dest)
DoSwitch  == \E a, b \in Points : Switch(a, b)
Next == Setup \/ EndPairs \/ Finish \/ Return \/ DoMove \/ DoXSwap \/ DoEnqueue \/ DoSwitch
Spec == Init /\ [][Next]_vars

-----------------------------------------------------------------------------
Size(c)   == Cardinality({p \in Points : labels[p] = c})
Histogram == \A c \in Clusters : counters[c] = Size(c)
CapsSum   == phase # "setup" => Sum(leftclose, Clusters) = NOver
SizesOK   == /\ \A c \in Clusters : Size(c) \in {Ave, Ave + 1}
             /\ Cardinality({c \in Clusters : Size(c) = Ave + 1}) = NOver
Balanced  == phase \in {"switch", "done"} => SizesOK
\* The design-level finding TLC produces for this strategy (see DESIGN C07): points that took part in an
\* exchange are frozen, so an over-full cluster can be left with frozen points only and keeps its excess.
Exhausted == \E c \in Clusters : /\ counters[c] > Cap(c)
                                  /\ \A p \in Points : labels[p] = c => p \in moved
BalancedUnlessExhausted == phase \in {"switch", "done"} => (Exhausted \/ SizesOK)
\* the code's own assertion: no cluster below ave at the end of the pair loop
CodeAssertion == phase \in {"switch", "done"} => \A c \in Clusters : counters[c] >= Ave
=============================================================================
