SPECIFICATION TSpec
CONSTANTS MaxN = 1000
 MaxK = 1000
 ExploreSwitch = TRUE
 DEV_CapsAsCoded = FALSE
CHECK_DEADLOCK FALSE
