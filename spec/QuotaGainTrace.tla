---------------------------- MODULE QuotaGainTrace ----------------------------
(* code -> spec for _constraint_association_gain (hook H1).  Events: gain_begin (the     *)
(* initial labelling and the caps the quota set-up ended with), then move | xswap |      *)
(* enqueue in the order of the code's sorted pair list, assigned, switch*, end - or      *)
(* "raised" when the call ended with an exception (the code's own assertion).            *)
EXTENDS QuotaGain, TraceKit
VARIABLES tid, l
T   == Batch[tid]
NEv == Len(T.ev)
Ev  == T.ev[l]
tv  == <<vars, tid, l>>
Lab(s) == [p \in 1 .. Len(s) |-> s[p] + 1]

TInit == /\ tid \in 1 .. Len(Batch) /\ l = 1
         /\ n = Batch[tid].n /\ k = Batch[tid].k
         /\ labels = Lab(Batch[tid].ev[1].labels)
         /\ counters = [c \in 1 .. Batch[tid].k |-> Cardinality({p \in 1 .. Batch[tid].n : Batch[tid].ev[1].labels[p] + 1 = c})]
         /\ leftclose = [c \in 1 .. Batch[tid].k |-> 0]
         /\ moved = {} /\ todo = (1 .. Batch[tid].n) \X (1 .. Batch[tid].k)
         /\ transfer = [cd \in (1 .. Batch[tid].k) \X (1 .. Batch[tid].k) |-> {}]
         /\ phase = "setup"

StateOK == Histogram /\ CapsSum
Check   == Require(StateOK', T.id, "StateInvariant", l, [counters |-> counters', labels |-> labels'])
Is(a)   == l <= NEv /\ Ev.a = a
Go      == l' = l + 1 /\ UNCHANGED tid
Sizes   == [c \in Clusters |-> Size(c)]

LoggedCaps == [c \in Clusters |-> Ev.leftclose[c]]
GBegin == Is("gain_begin") /\ l = 1 /\ phase = "setup" /\ GoodCaps(LoggedCaps)
TBegin == /\ GBegin /\ Setup /\ leftclose' = LoggedCaps
          /\ Require(Ev.ave = Ave /\ [c \in Clusters |-> Ev.counters[c]] = counters, T.id, "Histogram", l, [ave |-> Ave, counters |-> counters])
          /\ Check /\ Go
GMove == Is("move") /\ phase = "pairs" /\ <<Ev.p + 1, Ev.dest + 1>> \in Active /\ labels[Ev.p + 1] = Ev.cur + 1
         /\ CanMove(Ev.cur + 1, Ev.dest + 1)
TMove == GMove /\ Move(Ev.p + 1, Ev.dest + 1) /\ Check /\ Go
GXSwap == Is("xswap") /\ phase = "pairs" /\ <<Ev.p + 1, Ev.dest + 1>> \in Active /\ labels[Ev.p + 1] = Ev.cur + 1
          /\ ~CanMove(Ev.cur + 1, Ev.dest + 1) /\ Ev.q + 1 \in Waiting(Ev.dest + 1, Ev.cur + 1)
TXSwap == GXSwap /\ XSwap(Ev.p + 1, Ev.dest + 1, Ev.q + 1) /\ Check /\ Go
GEnqueue == Is("enqueue") /\ phase = "pairs" /\ <<Ev.p + 1, Ev.dest + 1>> \in Active /\ labels[Ev.p + 1] = Ev.cur + 1
            /\ ~CanMove(Ev.cur + 1, Ev.dest + 1)
TEnqueue == GEnqueue /\ Enqueue(Ev.p + 1, Ev.dest + 1) /\ Check /\ Go
\* end of the pair loop: every pair the code did not act on must be one the specification skips too
GAssigned == Is("assigned") /\ phase = "pairs" /\ Active = {}
TAssigned == /\ GAssigned /\ EndPairs
             /\ Require(Lab(Ev.labels) = labels, T.id, "LabelsAreAssignments", l, [got |-> Ev.labels, want |-> labels])
             /\ Require(SizesOK, T.id, "Balanced", l, [sizes |-> Sizes, caps |-> leftclose, exhausted |-> Exhausted])
             /\ Go
GSwitch == Is("switch") /\ phase = "switch" /\ Ev.i + 1 \in Points /\ Ev.j + 1 \in Points /\ labels[Ev.i + 1] # labels[Ev.j + 1]
TSwitch == /\ GSwitch /\ Switch(Ev.i + 1, Ev.j + 1)
           /\ Require(labels'[Ev.i + 1] = Ev.ci + 1 /\ labels'[Ev.j + 1] = Ev.cj + 1, T.id, "SwitchExchanges", l, <<>>)
           /\ Check /\ Go
GEnd == Is("end") /\ phase = "switch" /\ l = NEv
TEnd == /\ GEnd /\ Finish
        /\ Require(Lab(Ev.labels) = labels, T.id, "LabelsAreAssignments", l, [got |-> Ev.labels, want |-> labels])
        /\ Require([c \in Clusters |-> Ev.counters[c]] = Sizes, T.id, "Histogram", l, [got |-> Ev.counters, want |-> Sizes])
        /\ Require(SizesOK, T.id, "Balanced", l, [sizes |-> Sizes, caps |-> leftclose, exhausted |-> Exhausted])
        /\ Accepted(T.id) /\ Go
\* the call raised (the code's `assert neg <= 0`): the property says fit / predict succeed
GRaised == Is("raised") /\ l = NEv
TRaised == /\ GRaised
           /\ Failed(T.id, "CallSucceeds", l, [sizes |-> Sizes, caps |-> leftclose, exhausted |-> Exhausted, err |-> Ev.err])
           /\ Accepted(T.id) /\ UNCHANGED vars /\ Go

AnyGuard == GBegin \/ GMove \/ GXSwap \/ GEnqueue \/ GAssigned \/ GSwitch \/ GEnd \/ GRaised
Why == [phase |-> phase, counters |-> counters, caps |-> leftclose, ave |-> Ave, nover |-> NOver,
        active |-> Cardinality(Active), moved |-> moved,
        event |-> IF l <= NEv THEN Ev ELSE [a |-> "none"]]
Stuck == /\ l >= 1 /\ l <= NEv /\ ~AnyGuard
         /\ Rejected(T.id, l, Why) /\ l' = 0 /\ UNCHANGED <<vars, tid>>
TNext == /\ l >= 1 /\ l <= NEv
         /\ (TBegin \/ TMove \/ TXSwap \/ TEnqueue \/ TAssigned \/ TSwitch \/ TEnd \/ TRaised \/ Stuck)
TSpec == TInit /\ [][TNext]_tv
=============================================================================
