SPECIFICATION TSpec
CONSTANTS MaxN = 1000
 MaxK = 1000
 DEV_QuotaLE = FALSE
CHECK_DEADLOCK FALSE
