------------------------------ MODULE QuotaTrace ------------------------------
(* code -> spec for _constraint_association_distance (hook H1).  One trace = one call    *)
(* (an iteration of fit, or a balanced prediction).  Events, in the order the code       *)
(* emits them:  distance_begin, (pass, assign_quota | assign_extra ...)+, assigned,       *)
(* switch*, end.  Each event must be an enabled step of Quota with the logged arguments; *)
(* EndPass, the closing Pass and Skip are not observable and run as silent steps.        *)
EXTENDS Quota, TraceKit
VARIABLES tid, l
T   == Batch[tid]
NEv == Len(T.ev)
Ev  == T.ev[l]
tv  == <<vars, tid, l>>

TInit == /\ tid \in 1 .. Len(Batch) /\ l = 1
         /\ n = Batch[tid].n /\ k = Batch[tid].k
         /\ labels = [p \in 1 .. Batch[tid].n |-> 0] /\ counters = [c \in 1 .. Batch[tid].k |-> 0]
         /\ leftclose = [c \in 1 .. Batch[tid].k |-> -1] /\ nover = 0 /\ visited = {} /\ phase = "pass"

Lab(s)   == [p \in 1 .. Len(s) |-> s[p] + 1]         \* code labels (-1 = none) -> spec labels (0 = none)
StateOK  == Histogram /\ ValidLabels /\ ExtraOnce
Check    == Require(StateOK', T.id, "StateInvariant", l, [counters |-> counters', labels |-> labels'])
Is(a)    == l <= NEv /\ Ev.a = a
Go       == l' = l + 1 /\ UNCHANGED tid

\* ---- silent steps (forced bookkeeping the code does without a decision)
SilentEndPass == phase = "assign" /\ Todo = {} /\ EndPass /\ UNCHANGED <<tid, l>>
SilentLastPass == phase = "pass" /\ Unassigned = {} /\ l > 1 /\ Pass /\ UNCHANGED <<tid, l>>
SilentSkip == \E p \in Points : Skip(p) /\ UNCHANGED <<tid, l>>
SilentEnabled == \/ (phase = "assign" /\ Todo = {})
                 \/ (phase = "pass" /\ Unassigned = {} /\ l > 1)
                 \/ (phase = "assign" /\ \E p \in Todo : \A c \in Clusters : ~Eligible(c))

\* ---- logged steps: guard (a state predicate) + the specification's action + logged fields
GBegin == Is("distance_begin") /\ l = 1
TBegin == /\ GBegin
          /\ Require(Ev.limit = Limit /\ Ev.leftover = Leftover, T.id, "QuotaConstants", l, [limit |-> Limit, leftover |-> Leftover])
          /\ UNCHANGED vars /\ Go
GPass  == Is("pass") /\ phase = "pass" /\ (Unassigned # {} \/ l = 2)
TPass  == /\ GPass /\ Pass
          /\ Require(phase' = "assign" => Ev.nover = nover', T.id, "NoverReset", l, [got |-> Ev.nover, want |-> nover'])
          /\ Go
GQuota == Is("assign_quota") /\ phase = "assign" /\ Ev.p + 1 \in Todo /\ Ev.c + 1 \in Clusters /\ HasQuota(Ev.c + 1)
TQuota == /\ GQuota /\ AssignQuota(Ev.p + 1, Ev.c + 1)
          /\ Require(counters'[Ev.c + 1] = Ev.cnt, T.id, "Histogram", l, [got |-> Ev.cnt, want |-> counters'[Ev.c + 1]])
          /\ Check /\ Go
GExtra == Is("assign_extra") /\ phase = "assign" /\ Ev.p + 1 \in Todo /\ Ev.c + 1 \in Clusters /\ HasExtra(Ev.c + 1)
TExtra == /\ GExtra /\ AssignExtra(Ev.p + 1, Ev.c + 1)
          /\ Require(counters'[Ev.c + 1] = Ev.cnt /\ nover' = Ev.nover, T.id, "Histogram", l, [cnt |-> counters'[Ev.c + 1], nover |-> nover'])
          /\ Check /\ Go
GAssigned == Is("assigned") /\ phase = "switch"
TAssigned == /\ GAssigned
             /\ Require(Lab(Ev.labels) = labels, T.id, "LabelsAreAssignments", l, [got |-> Ev.labels, want |-> labels])
             /\ Require(Balanced, T.id, "Balanced", l, [sizes |-> [c \in Clusters |-> Size(c)]])
             /\ UNCHANGED vars /\ Go
GSwitch == Is("switch") /\ phase = "switch" /\ Ev.i + 1 \in Points /\ Ev.j + 1 \in Points /\ labels[Ev.i + 1] # labels[Ev.j + 1]
TSwitch == /\ GSwitch /\ Switch(Ev.i + 1, Ev.j + 1)
           /\ Require(labels'[Ev.i + 1] = Ev.ci + 1 /\ labels'[Ev.j + 1] = Ev.cj + 1, T.id, "SwitchExchanges", l, <<>>)
           /\ Check /\ Go
GEnd == Is("end") /\ phase = "switch" /\ l = NEv
TEnd == /\ GEnd /\ Finish
        /\ Require(Lab(Ev.labels) = labels, T.id, "LabelsAreAssignments", l, [got |-> Ev.labels, want |-> labels])
        /\ Require([c \in Clusters |-> Ev.counters[c]] = [c \in Clusters |-> Size(c)], T.id, "Histogram", l, [got |-> Ev.counters])
        /\ Require(Balanced', T.id, "Balanced", l, [sizes |-> [c \in Clusters |-> Size(c)]])
        /\ Accepted(T.id) /\ Go

AnyGuard == GBegin \/ GPass \/ GQuota \/ GExtra \/ GAssigned \/ GSwitch \/ GEnd
Why == [phase |-> phase, counters |-> counters, leftclose |-> leftclose, nover |-> nover, limit |-> Limit,
        unassigned |-> Unassigned, event |-> IF l <= NEv THEN Ev ELSE [a |-> "none"]]
Stuck == /\ l >= 1 /\ l <= NEv /\ ~AnyGuard /\ ~SilentEnabled
         /\ Rejected(T.id, l, Why) /\ l' = 0 /\ UNCHANGED <<vars, tid>>

TNext == /\ l >= 1 /\ l <= NEv
         /\ \/ TBegin \/ TPass \/ TQuota \/ TExtra \/ TAssigned \/ TSwitch \/ TEnd
            \/ SilentEndPass \/ SilentLastPass \/ SilentSkip \/ Stuck
TSpec == TInit /\ [][TNext]_tv
=============================================================================
