----------------------------- MODULE QuotaWeights -----------------------------
(* mlinsights/mlmodel/_kmeans_constraint_.py : _constraint_kmeans_weights               *)
(* (ConstraintKMeans, strategy = 'weights').  The numeric part (weighted distances,      *)
(* the balance penalty) is abstracted to what the control flow looks at: per iteration   *)
(*    - used    : every cluster got a point in the association (else the cluster weights *)
(*                are reset to 1 and the association is run a second time),              *)
(*    - v       : the inertia of the iteration (only compared, so any ordered set),      *)
(*    - bal     : sum |size - n/k| <= k/2  (the second half of the early-stop rule).     *)
(* What is modelled exactly: the iteration counter (it starts at the n_iter_ of the      *)
(* preliminary KMeans), the best-so-far bookkeeping (strictly smaller inertia wins, so   *)
(* the first minimum is kept), the early stop (inertia >= best and more than five        *)
(* iterations since the best one and balanced) and what is returned.                     *)
EXTENDS Integers, Sequences, FiniteSets
CONSTANTS MaxIter, Starts, Vals,
          DEV_KeepLast       \* TRUE: `inertia <= best` - the last minimum is kept (a deviation the invariants reject)

VARIABLES it, start, pc, best, bestIter, hist, ret
vars == <<it, start, pc, best, bestIter, hist, ret>>
None == -1

Init == /\ start \in Starts /\ it = start /\ pc = "loop"
        /\ best = None /\ bestIter = None /\ hist = <<>> /\ ret = <<>>

Better(v) == best = None \/ (IF DEV_KeepLast THEN v <= best ELSE v < best)
\* one pass of the while loop (whether the weights were reset in it does not influence the control flow: the trace
\* specification checks the reset rule on the recorded association calls)
Iterate(v, bal) ==
   /\ pc = "loop" /\ it < MaxIter
   /\ hist' = Append(hist, [it |-> it, v |-> v])
   /\ best' = IF Better(v) THEN v ELSE best
   /\ bestIter' = IF Better(v) THEN it ELSE bestIter
   /\ it' = it + 1
   /\ pc' = IF v >= best' /\ it' > bestIter' + 5 /\ bal THEN "stop" ELSE "loop"
   /\ UNCHANGED <<start, ret>>
Return == /\ pc \in {"loop", "stop"} /\ (pc = "stop" \/ it >= MaxIter)
          /\ ret' = [v |-> best, from |-> bestIter, n_iter |-> it]
          /\ pc' = "done" /\ UNCHANGED <<it, start, best, bestIter, hist>>
Done == pc = "done" /\ UNCHANGED vars
DoIterate == \E v \in Vals, bal \in BOOLEAN : Iterate(v, bal)
Next == DoIterate \/ Return \/ Done
Spec == Init /\ [][Next]_vars
FairSpec == Spec /\ WF_vars(DoIterate) /\ WF_vars(Return)

-----------------------------------------------------------------------------
MinOf(S) == CHOOSE m \in S : \A q \in S : m <= q
Seen == {hist[j].v : j \in DOMAIN hist}
FirstMin == LET m == MinOf(Seen) IN MinOf({hist[j].it : j \in {q \in DOMAIN hist : hist[q].v = m}})
\* what the caller can rely on
NIterBound == it <= (IF start > MaxIter THEN start ELSE MaxIter)
ReturnsTheBest == pc = "done" /\ hist # <<>> => ret.v = MinOf(Seen) /\ ret.from = FirstMin
NothingToReturn == pc = "done" /\ hist = <<>> => ret.v = None      \* start >= MaxIter: the loop body never ran
StopOnlyWhenStale == pc = "stop" => it > bestIter + 5 /\ hist[Len(hist)].v >= best
NIterCountsPasses == pc = "done" => ret.n_iter = start + Len(hist)
Terminates == <>(pc = "done")
=============================================================================
