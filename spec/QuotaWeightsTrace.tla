-------------------------- MODULE QuotaWeightsTrace --------------------------
(* code -> spec for ConstraintKMeans(strategy='weights').fit.  The module-level helpers   *)
(* of _kmeans_constraint_ are wrapped by the harness (no hook in the library):           *)
(*   iter {calls: [{used, ones}], v, bal}   one pass of the loop: the association calls   *)
(*        (did every cluster get a point / were the cluster weights all 1), the rank of   *)
(*        the inertia among the inertias of the fit, the balance half of the stop rule    *)
(*   ret  {v, n_iter, matches}              what fit stored: rank of inertia_, n_iter_,   *)
(*        and the passes whose (labels, centres, cluster weights) equal the stored ones   *)
(* One TLC run per value of max_iter (constant MaxIter).                                  *)
EXTENDS QuotaWeights, TraceKit
VARIABLES tid, l
T   == Batch[tid]
NEv == Len(T.ev)
Ev  == T.ev[l]
TInit == /\ tid \in 1 .. Len(Batch) /\ l = 1
         /\ start = Batch[tid].start /\ it = start /\ pc = "loop"
         /\ best = None /\ bestIter = None /\ hist = <<>> /\ ret = <<>>
Is(a) == l <= NEv /\ Ev.a = a
Go == l' = l + 1 /\ UNCHANGED tid
ResetRule(c) == /\ Len(c) \in {1, 2}
                /\ c[1].used <=> Len(c) = 1
                /\ Len(c) = 2 => c[2].ones
TIter == /\ Is("iter") /\ Iterate(Ev.v, Ev.bal)
         /\ Require(ResetRule(Ev.calls), T.id, "ResetIffEmptyCluster", l, [calls |-> Ev.calls])
         /\ Go
TRet == /\ Is("ret") /\ Return
        /\ Require(Ev.v = ret'.v, T.id, "ReturnsBestInertia", l, [got |-> Ev.v, want |-> ret'.v])
        /\ Require(hist = <<>> \/ ret'.from \in {Ev.matches[j] : j \in 1 .. Len(Ev.matches)}, T.id, "ReturnsBestIteration", l,
                   [stored_equals_passes |-> Ev.matches, best_pass |-> ret'.from])
        /\ Require(Ev.n_iter = ret'.n_iter, T.id, "NIterCountsPasses", l, [got |-> Ev.n_iter, want |-> ret'.n_iter])
        /\ Require(Ev.n_iter <= MaxIter \/ Ev.n_iter = start, T.id, "NIterBound", l, [n_iter |-> Ev.n_iter])
        /\ Go
TDone == /\ l = NEv + 1 /\ pc = "done" /\ Accepted(T.id) /\ l' = NEv + 2 /\ UNCHANGED <<vars, tid>>
GIter == Is("iter") /\ pc = "loop" /\ it < MaxIter
GRet  == Is("ret") /\ pc \in {"loop", "stop"} /\ (pc = "stop" \/ it >= MaxIter)
TStuck == /\ l >= 1 /\ l <= NEv /\ ~GIter /\ ~GRet
          /\ Rejected(T.id, l, [event |-> Ev, pc |-> pc, it |-> it, best |-> best, bestIter |-> bestIter])
          /\ l' = 0 /\ UNCHANGED <<vars, tid>>
TNext == l >= 1 /\ (TIter \/ TRet \/ TDone \/ TStuck)
TSpec == TInit /\ [][TNext]_<<vars, tid, l>>
=============================================================================
