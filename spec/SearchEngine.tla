------------------------------ MODULE SearchEngine ------------------------------
(* mlinsights/search_rank: SearchEngineVectors / SearchEnginePredictions - a local search *)
(* engine: `fit` stores a population of vectors (through a featurizer f for the           *)
(* Predictions variant) with one metadata row per vector, `kneighbors(x, k)` answers with  *)
(* the k stored vectors nearest to f(x), nearest first, their indices and THEIR metadata.  *)
(* (Growth of the specification beyond the 20 listed properties; `./check X-SearchEngine`.)*)
(*                                                                                         *)
(* Actions = the public calls.  The order among equally distant vectors is left free (the  *)
(* answer is any member of Answers); everything else of the answer is determined.  A fit   *)
(* that raises (malformed data) and a query change nothing.                                *)
EXTENDS Integers, Sequences, FiniteSets, TLC

CONSTANTS Coord,      \* coordinates of the vectors (plane, integer grid)
          MaxN,       \* bound on the population (model checking only)
          Labels,     \* metadata values
          Metric,     \* "l1" | "l2"   (l2: squared distances are compared and reported)
          Fct,        \* featurizer: "id" | "double" | "proj" | "swap"
          DEV_NoFarther  \* deviation for the negative run: an answer need not beat the vectors it leaves out

VARIABLES raw,        \* ghost: the vectors as given to the last successful fit
          pop,        \* the stored (already featurized) vectors, in the order given
          meta,       \* <<>> (no metadata) or one label per vector
          fitted,
          last        \* outcome of the last call (observation)
vars == <<raw, pop, meta, fitted, last>>
store == <<raw, pop, meta, fitted>>

Abs(a) == IF a < 0 THEN -a ELSE a
D(p, q) == IF Metric = "l1" THEN Abs(p[1] - q[1]) + Abs(p[2] - q[2])
           ELSE (p[1] - q[1]) * (p[1] - q[1]) + (p[2] - q[2]) * (p[2] - q[2])
F(p) == CASE Fct = "id" -> p [] Fct = "double" -> <<2 * p[1], 2 * p[2]>> [] Fct = "proj" -> <<p[1], 0>> [] Fct = "swap" -> <<p[2], p[1]>>
N == Len(pop)

\* indices are 0-based as in the code
Valid(x, k, ind, dist, m) ==
    /\ Len(ind) = k /\ Len(dist) = k
    /\ \A i \in 1 .. k : ind[i] \in 0 .. N - 1
    /\ \A i, j \in 1 .. k : i # j => ind[i] # ind[j]
    /\ \A i \in 1 .. k : dist[i] = D(pop[ind[i] + 1], F(x))
    /\ \A i \in 1 .. k - 1 : dist[i] <= dist[i + 1]
    /\ DEV_NoFarther \/ \A j \in 0 .. N - 1 : (\A i \in 1 .. k : ind[i] # j) => D(pop[j + 1], F(x)) >= dist[k]
    /\ m = IF meta = <<>> THEN <<>> ELSE [i \in 1 .. k |-> meta[ind[i] + 1]]

Inj(k) == {s \in [1 .. k -> 0 .. N - 1] : \A i, j \in 1 .. k : i # j => s[i] # s[j]}
Answer(x, s) == [ind |-> s, dist |-> [i \in 1 .. Len(s) |-> D(pop[s[i] + 1], F(x))],
                 meta |-> IF meta = <<>> THEN <<>> ELSE [i \in 1 .. Len(s) |-> meta[s[i] + 1]]]
Answers(x, k) == {a \in {Answer(x, s) : s \in Inj(k)} : Valid(x, k, a.ind, a.dist, a.meta)}

Init == raw = <<>> /\ pop = <<>> /\ meta = <<>> /\ fitted = FALSE /\ last = <<"init">>

\* a fit replaces the whole population: nothing of an earlier one survives
Fit(pts, ms) == /\ Len(pts) >= 1 /\ (ms = <<>> \/ Len(ms) = Len(pts))
                /\ raw' = pts /\ pop' = [i \in 1 .. Len(pts) |-> F(pts[i])] /\ meta' = ms /\ fitted' = TRUE
                /\ last' = <<"fit", Len(pts)>>
FitRaises == UNCHANGED store /\ last' = <<"fitraise">>
Query(x, k) == /\ fitted /\ k \in 1 .. N
               /\ \E a \in Answers(x, k) : last' = <<"answer", x, a>>
               /\ UNCHANGED store
\* asking before a fit, or for more neighbours than vectors, raises and changes nothing
QueryRaises(x, k) == (~fitted \/ k > N \/ k < 1) /\ UNCHANGED store /\ last' = <<"queryraise">>

Pt == Coord \X Coord
SeqsUpTo(S, n) == UNION {[1 .. m -> S] : m \in 1 .. n}
Next == \/ \E pts \in SeqsUpTo(Pt, MaxN) : \E ms \in {<<>>} \cup [1 .. Len(pts) -> Labels] : Fit(pts, ms)
        \/ FitRaises
        \/ \E x \in Pt, k \in 1 .. MaxN + 1 : Query(x, k) \/ QueryRaises(x, k)
Spec == Init /\ [][Next]_vars

\* ---- what a user relies on -------------------------------------------------------------------------------
\* whatever the order among ties, the distances of an answer are determined by the population and the query
DistancesDetermined == fitted => \A x \in Pt, k \in 1 .. N : \A a, b \in Answers(x, k) : a.dist = b.dist
\* there always is an answer (the engine never has to refuse a legal query)
AnswerExists == fitted => \A x \in Pt, k \in 1 .. N : Answers(x, k) # {}
\* asking for one more neighbour only extends the list of distances
PrefixConsistent == fitted => \A x \in Pt, k \in 1 .. N - 1 : \A a \in Answers(x, k), b \in Answers(x, k + 1) :
                                  a.dist = [i \in 1 .. k |-> b.dist[i]]
\* a stored vector is its own nearest neighbour (distance 0) - through the featurizer as well
SelfIsNearest == fitted => \A i \in 1 .. N : \A a \in Answers(raw[i], 1) : a.dist[1] = 0
\* the metadata returned is the metadata of the vectors returned
MetaFollowsInd == (last[1] = "answer" /\ meta # <<>>) => \A i \in 1 .. Len(last[3].ind) : last[3].meta[i] = meta[last[3].ind[i] + 1]
\* queries and failed fits are pure
ReadOnly == [][(last'[1] \in {"answer", "queryraise", "fitraise"}) => UNCHANGED store]_vars
\* the k-th distance is a threshold: at least k vectors within it, fewer than k strictly inside
KthIsThreshold == (last[1] = "answer") => LET x == last[2] a == last[3] k == Len(a.ind) IN
                      /\ Cardinality({j \in 1 .. N : D(pop[j], F(x)) <= a.dist[k]}) >= k
                      /\ Cardinality({j \in 1 .. N : D(pop[j], F(x)) < a.dist[k]}) < k
=============================================================================
