--------------------------- MODULE SearchEngineTrace ---------------------------
(* code -> spec for search_rank.SearchEngineVectors / SearchEnginePredictions: a history of *)
(* public calls on one engine.  Events:                                                    *)
(*   fit    {pts, ms, ok}             a well-formed fit (array / frame / iterator form)     *)
(*   badfit {raised}                  a malformed fit: must raise and change nothing        *)
(*   query  {x, k, out, ind, dist, meta}   kneighbors(x, k): out = "ok" | "raise"           *)
(*   store  {pop, ms}                 features_ / metadata_ as read off the object          *)
(* Every field is logged, so each event is one deterministic step; each clause of Valid is  *)
(* a separately named requirement.                                                          *)
EXTENDS SearchEngine, TraceKit
VARIABLES tid, l
T == Batch[tid]
NEv == Len(T.ev)
Ev == T.ev[l]
Go == l' = l + 1 /\ UNCHANGED tid
TInit == tid \in 1 .. Len(Batch) /\ l = 1 /\ Init
TFit == /\ l <= NEv /\ Ev.a = "fit"
        /\ IF Ev.ok THEN Fit(Ev.pts, Ev.ms)
           ELSE Failed(T.id, "FitSucceeds", l, [pts |-> Ev.pts, err |-> Ev.err]) /\ FitRaises
        /\ Go
TBadFit == /\ l <= NEv /\ Ev.a = "badfit"
           /\ Require(Ev.raised, T.id, "BadFitRefused", l, [what |-> Ev.what])
           /\ FitRaises /\ Go
Legal == fitted /\ Ev.k \in 1 .. N
TQuery == /\ l <= NEv /\ Ev.a = "query"
          /\ IF Legal
             THEN /\ Require(Ev.out = "ok", T.id, "QuerySucceeds", l, [x |-> Ev.x, k |-> Ev.k, err |-> Ev.err])
                  /\ Ev.out = "ok" =>
                     LET k == Ev.k ind == Ev.ind dist == Ev.dist
                         shape == Len(ind) = k /\ Len(dist) = k /\ \A i \in 1 .. Len(ind) : ind[i] \in 0 .. N - 1 IN
                     /\ Require(shape, T.id, "KIndicesOfThePopulation", l, [ind |-> ind, k |-> k, n |-> N])
                     /\ shape =>
                        /\ Require(\A i, j \in 1 .. k : i # j => ind[i] # ind[j], T.id, "IndicesDistinct", l, [ind |-> ind])
                        /\ Require(\A i \in 1 .. k : dist[i] = D(pop[ind[i] + 1], F(Ev.x)), T.id, "DistancesTrue", l,
                                   [got |-> dist, want |-> [i \in 1 .. k |-> D(pop[ind[i] + 1], F(Ev.x))]])
                        /\ Require(\A i \in 1 .. k - 1 : dist[i] <= dist[i + 1], T.id, "NearestFirst", l, [dist |-> dist])
                        /\ Require(\A j \in 0 .. N - 1 : (\A i \in 1 .. k : ind[i] # j) => D(pop[j + 1], F(Ev.x)) >= D(pop[ind[k] + 1], F(Ev.x)),
                                   T.id, "NothingNearerLeftOut", l, [ind |-> ind, x |-> Ev.x])
                        /\ Require(Ev.meta = (IF meta = <<>> THEN <<>> ELSE [i \in 1 .. k |-> meta[ind[i] + 1]]), T.id, "MetaFollowsInd", l,
                                   [got |-> Ev.meta, ind |-> ind])
             ELSE Require(Ev.out = "raise", T.id, "IllegalQueryRefused", l, [k |-> Ev.k, n |-> N, fitted |-> fitted])
          /\ UNCHANGED store /\ last' = <<"query">> /\ Go
TStore == /\ l <= NEv /\ Ev.a = "store"
          /\ Require(fitted => (Ev.pop = pop /\ Ev.ms = meta), T.id, "StoreIsLastFit", l, [got |-> Ev.pop, want |-> pop, gotm |-> Ev.ms, wantm |-> meta])
          /\ Require(fitted = Ev.fitted, T.id, "FittedFlag", l, [got |-> Ev.fitted, want |-> fitted])
          /\ UNCHANGED vars /\ Go
TDone == l = NEv + 1 /\ Accepted(T.id) /\ l' = NEv + 2 /\ UNCHANGED <<vars, tid>>
TNext == TFit \/ TBadFit \/ TQuery \/ TStore \/ TDone
TSpec == TInit /\ [][TNext]_<<vars, tid, l>>
=============================================================================
