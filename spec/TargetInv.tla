------------------------------ MODULE TargetInv ------------------------------
(* Target transformations and their reciprocals:                                         *)
(*   sklearn_transform_inv_fct.py  FunctionReciprocalTransformer (name table),           *)
(*                                 PermutationReciprocalTransformer,                     *)
(*   target_predictors.py          TransformedTargetRegressor2 / Classifier2.            *)
(*                                                                                       *)
(* Functions are abstracted to their CLASS (LOG, EXP, LOG1P, EXPM1) with                 *)
(* Inv(LOG) = EXP, Inv(LOG1P) = EXPM1.  A fitted permutation is a bijection sigma from   *)
(* the label set (any integers) onto 0..m-1; NaN is the label -1 and is a fixed point.   *)
(* The inner classifier is abstracted to a label-permutation-EQUIVARIANT learner: for a  *)
(* probe row r it knows the row's true label role Truth[r] and a score S[r][label] per   *)
(* original label; trained on sigma(y) it answers sigma(Truth[r]) and puts S[r][label]   *)
(* in the column of class sigma(label) (its classes_ are 0..m-1 in increasing order).    *)
EXTENDS Integers, Sequences, FiniteSets, TLC

CONSTANTS LabelSets,              \* candidate label sets (sets of non-negative integers)
          MaxLen,                 \* length of the label vectors transformed
          DEV_ExpM1PairedWithLog, \* TRUE: 'exp(x)-1' |-> 'log'   (the defect in the name table)
          DEV_ClassesInPermOrder  \* TRUE: classes_ = <<sigma^-1(0), sigma^-1(1), ..>> (the defect)

NaN == -1

-----------------------------------------------------------------------------
(* 1. the name table *)
Classes == {"LOG", "EXP", "LOG1P", "EXPM1"}
Inv(c) == CASE c = "LOG" -> "EXP" [] c = "EXP" -> "LOG" [] c = "LOG1P" -> "EXPM1" [] c = "EXPM1" -> "LOG1P"
Names == {"log", "exp", "log(1+x)", "log1p", "exp(x)-1", "expm1"}
ClassOf(nm) == CASE nm = "log" -> "LOG" [] nm = "exp" -> "EXP" [] nm = "log(1+x)" -> "LOG1P"
                 [] nm = "log1p" -> "LOG1P" [] nm = "exp(x)-1" -> "EXPM1" [] nm = "expm1" -> "EXPM1"
InvName(nm) == CASE nm = "log" -> "exp" [] nm = "exp" -> "log" [] nm = "log(1+x)" -> "exp(x)-1"
                 [] nm = "log1p" -> "expm1" [] nm = "expm1" -> "log1p"
                 [] nm = "exp(x)-1" -> IF DEV_ExpM1PairedWithLog THEN "log" ELSE "log(1+x)"
TableInverse == \A nm \in Names : ClassOf(InvName(nm)) = Inv(ClassOf(nm))

-----------------------------------------------------------------------------
(* 2. permutations and the classifier wrapper, as a small machine *)
VARIABLES L,        \* the label set of the training targets
          sigma,    \* fitted permutation: L -> 0..m-1
          y,        \* a label vector (with NaN) to transform
          truth, S, \* the probe row: its true label and its score per label
          phase
vars == <<L, sigma, y, truth, S, phase>>

M == Cardinality(L)
Bij(A, B) == {f \in [A -> B] : \A a1, a2 \in A : a1 # a2 => f[a1] # f[a2]}
Rank(v) == Cardinality({u \in L : u < v})                         \* position of v among sorted labels
SortedLabel(j) == CHOOSE v \in L : Rank(v) = j                    \* j-th smallest label (0-based)
SigInv(v) == CHOOSE a \in L : sigma[a] = v

Init == /\ L \in LabelSets
        /\ sigma = <<>> /\ y = <<>> /\ truth = NaN /\ S = <<>> /\ phase = "new"
\* PermutationReciprocalTransformer.fit: any bijection can come out of the random permutation
Fit == /\ phase = "new"
       /\ sigma' \in Bij(L, 0 .. M - 1)
       /\ \E len \in 1 .. MaxLen : y' \in [1 .. len -> L \cup {NaN}]
       /\ truth' \in L
       /\ S' = [v \in L |-> 100 + 7 * v]          \* distinct scores, one per original label
       /\ phase' = "fitted" /\ UNCHANGED L
Return == phase = "fitted" /\ UNCHANGED vars
Next == Fit \/ Return
Spec == Init /\ [][Next]_vars

\* label branch of transform / of the transformer returned by get_fct_inv
Fwd(v)  == IF v = NaN THEN NaN ELSE sigma[v]
Back(v) == IF v = NaN THEN NaN ELSE SigInv(v)
\* probability branch of the inverse transformer: inner column i goes to the rank of sigma^-1(i)
OuterCol(inner, j) == inner[sigma[SortedLabel(j)]]                \* what ends up in outer column j
\* the equivariant inner classifier trained on sigma(y)
InnerPredict == sigma[truth]
InnerProba   == [i \in 0 .. M - 1 |-> S[SigInv(i)]]
\* TransformedTargetClassifier2
Predict      == Back(InnerPredict)
PredictProba == [j \in 0 .. M - 1 |-> OuterCol(InnerProba, j)]
ClassesAttr  == IF DEV_ClassesInPermOrder THEN [j \in 0 .. M - 1 |-> SigInv(j)]
                ELSE [j \in 0 .. M - 1 |-> SortedLabel(j)]
\* the plain classifier (same learner, no permutation): classes_ sorted, column j = score of j-th label
PlainPredict == truth
PlainProba   == [j \in 0 .. M - 1 |-> S[SortedLabel(j)]]

RoundTrip == phase = "fitted" => \A q \in DOMAIN y : Back(Fwd(y[q])) = y[q]
NaNStaysNaN == phase = "fitted" => \A q \in DOMAIN y : (y[q] = NaN) <=> (Fwd(y[q]) = NaN)
PredictsOriginalLabels == phase = "fitted" => Predict = PlainPredict
ProbaAgreesWithPlain   == phase = "fitted" => PredictProba = PlainProba
ColumnsMatchClasses    == phase = "fitted" => \A j \in 0 .. M - 1 : PredictProba[j] = S[ClassesAttr[j]]
=============================================================================
