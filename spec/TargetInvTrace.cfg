SPECIFICATION TSpec
CONSTANTS LabelSets = {}
 MaxLen = 0
 DEV_ExpM1PairedWithLog = FALSE
 DEV_ClassesInPermOrder = FALSE
CHECK_DEADLOCK FALSE
