---------------------------- MODULE TargetInvTrace ----------------------------
(* code -> spec for the reciprocal transformers and the TransformedTarget*2 wrappers.    *)
(* kinds of trace (one observation step each; the state variables of TargetInv are bound *)
(* from the logged fitted permutation, so every operator of the specification is         *)
(* evaluated on the permutation the code really drew):                                   *)
(*   names  the name table as observed: each callable classified on dyadic points        *)
(*   perm   PermutationReciprocalTransformer: sigma, transform, inverse, probability cols *)
(*   tt2c   TransformedTargetClassifier2 around a recording equivariant classifier       *)
(*   tt2r   TransformedTargetRegressor2: function applied to targets / to predictions    *)
EXTENDS TargetInv, TraceKit
VARIABLES tid, l
T == Batch[tid]
ToSet(s) == {s[j] : j \in 1 .. Len(s)}
PairFun(ps) == [a \in {ps[j][1] : j \in 1 .. Len(ps)} |-> (CHOOSE j \in 1 .. Len(ps) : ps[j][1] = a) ]
Lookup(ps, a) == ps[CHOOSE j \in 1 .. Len(ps) : ps[j][1] = a][2]
HasPerm == T.kind \in {"perm", "tt2c"}
TInit == /\ tid \in 1 .. Len(Batch) /\ l = 1
         /\ L = IF Batch[tid].kind \in {"perm", "tt2c"} THEN ToSet(Batch[tid].labels) ELSE {0}
         /\ sigma = IF Batch[tid].kind \in {"perm", "tt2c"}
                    THEN [a \in ToSet(Batch[tid].labels) |-> Lookup(Batch[tid].sigma, a)] ELSE [a \in {0} |-> 0]
         /\ y = IF Batch[tid].kind \in {"perm", "tt2c"} THEN Batch[tid].y ELSE <<>>
         /\ truth = IF Batch[tid].kind = "tt2c" THEN Batch[tid].truth ELSE 0
         /\ S = IF Batch[tid].kind = "tt2c" THEN [a \in ToSet(Batch[tid].labels) |-> Lookup(Batch[tid].S, a)] ELSE [a \in {0} |-> 0]
         /\ phase = "fitted"
SigmaOK == /\ {T.sigma[j][1] : j \in 1 .. Len(T.sigma)} = L
           /\ {sigma[a] : a \in L} = 0 .. M - 1
Seq0(f) == [j \in 1 .. M |-> f[j - 1]]

ObsNames ==
   /\ Require({T.table[j].name : j \in 1 .. Len(T.table)} = Names, T.id, "AllNames", l, <<>>)
   /\ \A j \in 1 .. Len(T.table) : LET e == T.table[j] IN
        /\ Require(e.cls = ClassOf(e.name), T.id, "NameDenotesFunction", l, e)
        /\ Require(e.invcls = Inv(e.cls), T.id, "TableInverse", l, e)
        /\ Require(e.roundtrip, T.id, "RoundTrip", l, e)
ObsPerm ==
   /\ Require(SigmaOK, T.id, "SigmaIsBijection", l, [sigma |-> T.sigma])
   /\ SigmaOK =>
      /\ Require(T.ty = [q \in DOMAIN y |-> Fwd(y[q])], T.id, "TransformAppliesSigma", l, [got |-> T.ty])
      /\ Require(T.back = y, T.id, "RoundTrip", l, [got |-> T.back, want |-> y])
      /\ Require(T.features_untouched, T.id, "FeaturesUntouched", l, <<>>)
      /\ Require(T.proba_out = Seq0([j \in 0 .. M - 1 |-> OuterCol([i \in 0 .. M - 1 |-> T.proba_in[i + 1]], j)]),
                 T.id, "ProbaColumnsFollowLabels", l, [got |-> T.proba_out])
ObsTT2C ==
   /\ Require(SigmaOK, T.id, "SigmaIsBijection", l, [sigma |-> T.sigma])
   /\ SigmaOK =>
      /\ Require(T.inner_train = [q \in DOMAIN y |-> Fwd(y[q])], T.id, "TrainedOnTransformedTarget", l, [got |-> T.inner_train])
      /\ Require(T.pred = Predict, T.id, "PredictsOriginalLabels", l, [got |-> T.pred, want |-> Predict])
      /\ Require(T.pred = T.plain_pred, T.id, "AgreesWithPlainClassifier", l, [got |-> T.pred, plain |-> T.plain_pred])
      /\ Require(T.proba = Seq0(PredictProba), T.id, "ProbaAgreesWithPlain", l, [got |-> T.proba, want |-> Seq0(PredictProba)])
      /\ Require(T.proba = T.plain_proba, T.id, "ProbaAgreesWithPlain", l, [got |-> T.proba, plain |-> T.plain_proba])
      /\ Require(Len(T.classes) = M /\ \A j \in 1 .. Len(T.classes) : T.classes[j] \in L /\ T.proba[j] = S[T.classes[j]],
                 T.id, "ColumnsMatchClasses", l, [classes |-> T.classes, proba |-> T.proba])
ObsTT2R ==
   /\ Require(T.train_class = ClassOf(T.name), T.id, "TrainedOnTransformedTarget", l, [got |-> T.train_class])
   /\ Require(T.pred_class = Inv(ClassOf(T.name)), T.id, "PredictAppliesInverse", l, [got |-> T.pred_class, want |-> Inv(ClassOf(T.name))])
Observe == /\ l = 1
           /\ CASE T.kind = "names" -> ObsNames [] T.kind = "perm" -> ObsPerm
                [] T.kind = "tt2c" -> ObsTT2C [] T.kind = "tt2r" -> ObsTT2R
           /\ Accepted(T.id)
           /\ l' = 2 /\ UNCHANGED <<vars, tid>>
TSpec == TInit /\ [][Observe]_<<vars, tid, l>>
=============================================================================
