------------------------------ MODULE TraceKit ------------------------------
(* Shared protocol of every *Trace module (DESIGN 2.5).                                  *)
(* A batch of implementation traces is one JSON array; one TLC launch validates all of   *)
(* them (the trace index `tid` is chosen in the initial state).  Verdicts are *total*:   *)
(* nothing here is an INVARIANT, so one bad trace never hides the others.  Each verdict  *)
(* is one JSON line on stdout, parsed by harness/tlc.py.                                 *)
EXTENDS TLC, Json, IOUtils, Sequences, Naturals

Batch == JsonDeserialize(IOEnv.TRACE_FILE)

Say(rec) == PrintT(ToJson(rec))

\* the whole trace was consumed
Accepted(id)        == Say([k |-> "A", id |-> id])
\* a requirement of the specification evaluated to FALSE in the state after event l
Failed(id, c, l, d) == Say([k |-> "F", id |-> id, c |-> c, l |-> l, d |-> d])
\* event l is not an enabled step of the specification; why = the guard, conjunct by conjunct
Rejected(id, l, why) == Say([k |-> "X", id |-> id, l |-> l, why |-> why])
\* progress marker (longest matched prefix)
Reached(id, l)      == Say([k |-> "R", id |-> id, l |-> l])

\* Require(cond, ...) never blocks: it reports and lets the trace continue
Require(cond, id, c, l, d) == IF cond THEN TRUE ELSE Failed(id, c, l, d)

Has(rec, f) == f \in DOMAIN rec
=============================================================================
