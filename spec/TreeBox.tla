------------------------------- MODULE TreeBox -------------------------------
(* mlinsights/mltree/tree_structure.py: tree_leave_index, tree_node_parents,             *)
(* tree_find_path_to_root, tree_node_range, predict_leaves - against the decision        *)
(* function of a scikit-learn tree (x[feature] <= threshold goes left).                  *)
(* Trees are node tables (children_left/right, feature, threshold as in tree_), grown    *)
(* by the action Split, so every reachable state is a tree and the invariants are        *)
(* evaluated on every tree in the bound.  Coordinates are doubled: data live on even     *)
(* numbers, thresholds (midpoints) on odd ones, so comparisons are exact.                *)
EXTENDS Integers, Sequences, FiniteSets, TLC

CONSTANTS MaxNodes, NFeat, Ths, Grid,
          DEV_RootLeafRaises     \* TRUE: as the code did before the fix - a one-node tree has no box
                                 \* (numpy.full((-1, 2)) raises)

Leaf   == -1      \* TREE_LEAF
Undef  == -2      \* feature / threshold of a leaf
NegInf == -100000 \* numpy.nan in column 0 of tree_node_range
PosInf == 100000  \* numpy.nan in column 1

VARIABLES left, right, feat, th      \* sequences, node k at position k+1
vars == <<left, right, feat, th>>
NNodes == Len(left)
NodeIds == 0 .. NNodes - 1

Init == left = <<Leaf>> /\ right = <<Leaf>> /\ feat = <<Undef>> /\ th = <<Undef>>

\* a leaf becomes a test node with two fresh leaves (either numbering of the children:
\* depth-first builders give left = parent+1, best-first builders do not)
Split(l, f, t, flip) ==
   /\ NNodes + 2 <= MaxNodes /\ left[l + 1] = Leaf
   /\ LET a == NNodes  b == NNodes + 1 IN
      /\ left'  = [left  EXCEPT ![l + 1] = IF flip THEN b ELSE a] \o <<Leaf, Leaf>>
      /\ right' = [right EXCEPT ![l + 1] = IF flip THEN a ELSE b] \o <<Leaf, Leaf>>
      /\ feat'  = [feat EXCEPT ![l + 1] = f] \o <<Undef, Undef>>
      /\ th'    = [th EXCEPT ![l + 1] = t] \o <<Undef, Undef>>
Next == \E l \in NodeIds, f \in 0 .. NFeat - 1, t \in Ths, flip \in BOOLEAN : Split(l, f, t, flip)
Spec == Init /\ [][Next]_vars

-----------------------------------------------------------------------------
(* Requirement: the tree's own decision function *)
Points == [0 .. NFeat - 1 -> Grid]
RECURSIVE Route(_, _)
Route(k, x) == IF left[k + 1] = Leaf THEN k
               ELSE IF x[feat[k + 1]] <= th[k + 1] THEN Route(left[k + 1], x) ELSE Route(right[k + 1], x)
Apply(x) == Route(0, x)
TrueLeaves == {k \in NodeIds : left[k + 1] = Leaf /\ right[k + 1] = Leaf}
RECURSIVE PathFrom(_, _)
PathFrom(k, x) == IF left[k + 1] = Leaf THEN {k}
                  ELSE {k} \cup (IF x[feat[k + 1]] <= th[k + 1] THEN PathFrom(left[k + 1], x) ELSE PathFrom(right[k + 1], x))
DecisionPath(x) == PathFrom(0, x)

-----------------------------------------------------------------------------
(* Mechanism: what the code computes *)
\* tree_leave_index: nodes whose children_left is TREE_LEAF, in increasing order
LeaveIndex == {k \in NodeIds : left[k + 1] = Leaf}
\* tree_node_parents: parents[left child] = i, parents[right child] = -i
Parents == [c \in {left[k + 1] : k \in {q \in NodeIds : left[q + 1] # Leaf}} \cup
                  {right[k + 1] : k \in {q \in NodeIds : left[q + 1] # Leaf}} |->
              LET p == CHOOSE k \in NodeIds : left[k + 1] # Leaf /\ (left[k + 1] = c \/ right[k + 1] = c)
              IN IF left[p + 1] = c THEN p ELSE -p]
\* tree_find_path_to_root: follow parents (sign dropped), reversed: root first
RECURSIVE UpFrom(_)
UpFrom(c) == IF c \in DOMAIN Parents
             THEN LET p == IF Parents[c] < 0 THEN -Parents[c] ELSE Parents[c] IN UpFrom(p) \o <<c>>
             ELSE <<c>>
PathToRoot(i) == UpFrom(i)
Max2(a, b) == IF a >= b THEN a ELSE b
Min2(a, b) == IF a <= b THEN a ELSE b
RECURSIVE MaxFeat(_, _)
MaxFeat(path, k) == IF k > Len(path) THEN -1000 ELSE Max2(feat[path[k] + 1], MaxFeat(path, k + 1))
\* tree_node_range: walk the path, tighten lo on a right turn, hi on a left turn
RECURSIVE Tighten(_, _, _, _)
Tighten(box, path, ind, i) ==
   IF ind > Len(path) \/ path[ind] = i THEN box
   ELSE LET p  == path[ind]
            fn == feat[p + 1]
            lr == left[p + 1] = path[ind + 1]
            t  == th[p + 1]
            nb == IF lr THEN [box EXCEPT ![fn] = <<box[fn][1], IF box[fn][2] = PosInf THEN t ELSE Min2(box[fn][2], t)>>]
                        ELSE [box EXCEPT ![fn] = <<IF box[fn][1] = NegInf THEN t ELSE Max2(box[fn][1], t), box[fn][2]>>]
        IN Tighten(nb, path, ind + 1, i)
NodeRangeDefined(i) == ~(DEV_RootLeafRaises /\ MaxFeat(PathToRoot(i), 1) < 0)
NodeRange(i) == LET path == PathToRoot(i)
                    mx   == MaxFeat(path, 1)
                IN Tighten([f \in 0 .. mx |-> <<NegInf, PosInf>>], path, 1, i)
\* predict_leaves: argmax over the leave columns of the decision path
PredictLeaf(x) == LET hit == {k \in LeaveIndex : k \in DecisionPath(x)}
                  IN IF hit = {} THEN CHOOSE k \in LeaveIndex : \A q \in LeaveIndex : k <= q   \* argmax of zeros
                     ELSE CHOOSE k \in hit : \A q \in hit : k <= q

-----------------------------------------------------------------------------
(* tree_leave_neighbors: which leaves touch.  Requirement: two leaves are neighbours     *)
(* iff their (non-empty) boxes share a facet - they touch along one feature and overlap  *)
(* with positive length along every other one.  Mechanism (as coded): the thresholds of  *)
(* every used feature cut the space into a grid of cells, each cell is routed through    *)
(* the tree and two leaves are neighbours iff two cells next to each other along one     *)
(* feature fall in them.  One representative per interval (prev, t] is t itself, and     *)
(* max+1 stands for the interval above the last threshold (the code takes midpoints).    *)
Inner == {q \in NodeIds : left[q + 1] # Leaf}
UsedFeats == {feat[k + 1] : k \in Inner}
ThOf(f) == {th[k + 1] : k \in {q \in Inner : feat[q + 1] = f}}
BoxLo(k, f) == LET b == NodeRange(k) IN IF f \in DOMAIN b THEN b[f][1] ELSE NegInf
BoxHi(k, f) == LET b == NodeRange(k) IN IF f \in DOMAIN b THEN b[f][2] ELSE PosInf
NonEmptyBox(k, nf) == \A f \in 0 .. nf - 1 : BoxLo(k, f) < BoxHi(k, f)
Overlap(a, b, f) == Max2(BoxLo(a, f), BoxLo(b, f)) < Min2(BoxHi(a, f), BoxHi(b, f))
Touch(a, b, f) == BoxHi(a, f) = BoxLo(b, f) \/ BoxHi(b, f) = BoxLo(a, f)
Adjacent(a, b, nf) == /\ NonEmptyBox(a, nf) /\ NonEmptyBox(b, nf)
                      /\ \E f \in 0 .. nf - 1 : Touch(a, b, f) /\ \A g \in (0 .. nf - 1) \ {f} : Overlap(a, b, g)
FacetNeighbors(nf) == {p \in TrueLeaves \X TrueLeaves : p[1] < p[2] /\ Adjacent(p[1], p[2], nf)}

MaxOf(S) == CHOOSE m \in S : \A q \in S : q <= m
Reps(f) == ThOf(f) \cup {MaxOf(ThOf(f)) + 1}
RepsNoMargin(f) == ThOf(f)      \* deviation: the cells above the last threshold forgotten
CellSet == {c \in [UsedFeats -> UNION {Reps(f) : f \in UsedFeats}] : \A f \in UsedFeats : c[f] \in Reps(f)}
CellPoint(c, nf) == [f \in 0 .. nf - 1 |-> IF f \in UsedFeats THEN c[f] ELSE 0]
NextRep(f, v) == LET bigger == {r \in Reps(f) : r > v}
                 IN IF bigger = {} THEN v ELSE CHOOSE m \in bigger : \A q \in bigger : m <= q
GridNeighbors(nf) ==
   {p \in TrueLeaves \X TrueLeaves :
       /\ p[1] < p[2]
       /\ \E c \in CellSet, f \in UsedFeats :
             LET c2 == [c EXCEPT ![f] = NextRep(f, c[f])]
             IN {Route(0, CellPoint(c, nf)), Route(0, CellPoint(c2, nf))} = {p[1], p[2]}}
NeighborsAreFacets == GridNeighbors(NFeat) = FacetNeighbors(NFeat)
\* the same grid without the upper margin misses neighbours: NoMarginIsEnough must be VIOLATED (non-vacuity)
GridNeighborsNoMargin(nf) ==
   {p \in TrueLeaves \X TrueLeaves :
       /\ p[1] < p[2]
       /\ \E c \in {c \in [UsedFeats -> UNION {RepsNoMargin(f) : f \in UsedFeats}] : \A f \in UsedFeats : c[f] \in RepsNoMargin(f)},
             f \in UsedFeats :
             LET bigger == {r \in RepsNoMargin(f) : r > c[f]}
                 c2 == [c EXCEPT ![f] = IF bigger = {} THEN c[f] ELSE CHOOSE m \in bigger : \A q \in bigger : m <= q]
             IN {Route(0, CellPoint(c, nf)), Route(0, CellPoint(c2, nf))} = {p[1], p[2]}}
NoMarginIsEnough == GridNeighborsNoMargin(NFeat) = FacetNeighbors(NFeat)
NeighborsNeedTwoLeaves == Cardinality(TrueLeaves) = 1 => GridNeighbors(NFeat) = {}

-----------------------------------------------------------------------------
InBox(x, box) == \A f \in DOMAIN box : /\ (box[f][1] = NegInf \/ box[f][1] < x[f])
                                       /\ (box[f][2] = PosInf \/ x[f] <= box[f][2])
LeavesExact   == LeaveIndex = TrueLeaves
BoxDefined    == \A k \in TrueLeaves : NodeRangeDefined(k)
BoxIffRouted  == \A k \in TrueLeaves : NodeRangeDefined(k) =>
                    \A x \in Points : InBox(x, NodeRange(k)) <=> Apply(x) = k
PredictIsApply == \A x \in Points : PredictLeaf(x) = Apply(x)
PathEndsAtNode == \A k \in NodeIds : LET p == PathToRoot(k) IN p[1] = 0 /\ p[Len(p)] = k
=============================================================================
