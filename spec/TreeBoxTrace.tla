---------------------------- MODULE TreeBoxTrace ----------------------------
(* code -> spec for tree_structure.py on real scikit-learn trees.  A trace carries the   *)
(* tree_ arrays of a fitted (or hand-built) tree, coordinates doubled to integers, and   *)
(* the observations: tree_leave_index, per-leaf tree_node_range (or "raised"), and for   *)
(* each query point predict_leaves and the estimator's own apply.                        *)
EXTENDS TreeBox, TraceKit, SequencesExt
SetToSortSeq2(S) == SetToSortSeq(S, <)
VARIABLES tid, l
T == Batch[tid]
TInit == /\ tid \in 1 .. Len(Batch) /\ l = 1
         /\ left = Batch[tid].left /\ right = Batch[tid].right
         /\ feat = Batch[tid].feat /\ th = Batch[tid].th
Pt(q) == [f \in 0 .. T.nfeat - 1 |-> q[f + 1]]
\* observed box: sequence (one per feature row) of <<lo, hi>>
ObsBox(b) == [f \in 0 .. Len(b) - 1 |-> <<b[f + 1][1], b[f + 1][2]>>]
\* a box is a set of points: how many rows the returned array has (features never tested on the path may be left out or
\* be listed as unbounded) is representation
Side(b, f) == IF f \in DOMAIN b THEN b[f] ELSE <<NegInf, PosInf>>
SameBox(b1, b2) == \A f \in DOMAIN b1 \cup DOMAIN b2 : Side(b1, f) = Side(b2, f)
BadLeaves == {j \in 1 .. Len(T.ranges) :
                 LET r == T.ranges[j] IN
                 ~r.raised /\ ~SameBox(ObsBox(r.box), NodeRange(r.leaf))}
Raised == {j \in 1 .. Len(T.ranges) : T.ranges[j].raised /\ NodeRangeDefined(T.ranges[j].leaf)}
\* the user-level meaning, evaluated on the OBSERVED boxes and the logged query points
BadBox == {<<j, q>> \in (1 .. Len(T.ranges)) \X (1 .. Len(T.queries)) :
              LET r == T.ranges[j] IN
              ~r.raised /\ ~(InBox(Pt(T.queries[q].x), ObsBox(r.box)) <=> (Route(0, Pt(T.queries[q].x)) = r.leaf))}
BadPred == {q \in 1 .. Len(T.queries) : T.queries[q].leaf # Route(0, Pt(T.queries[q].x))}
BadApply == {q \in 1 .. Len(T.queries) : T.queries[q].apply # Route(0, Pt(T.queries[q].x))}
Observe == /\ l = 1
           /\ Require(T.leaves = SetToSortSeq2(TrueLeaves), T.id, "LeavesExact", l, [got |-> T.leaves])
           /\ Require({T.ranges[j].leaf : j \in 1 .. Len(T.ranges)} = TrueLeaves, T.id, "RangesForAllLeaves", l, <<>>)
           /\ Require(Raised = {}, T.id, "BoxDefined", l, [bad |-> Raised])
           /\ Require(BadLeaves = {}, T.id, "NodeRangeIsPathBox", l, [bad |-> BadLeaves])
           /\ Require(BadBox = {}, T.id, "BoxIffRouted", l, [bad |-> BadBox])
           /\ Require(BadPred = {}, T.id, "PredictLeavesIsApply", l, [bad |-> BadPred])
           /\ Require(BadApply = {}, T.id, "SpecRouteIsSklearnApply", l, [bad |-> BadApply])
           /\ Accepted(T.id)
           /\ l' = 2 /\ UNCHANGED <<vars, tid>>
TSpec == TInit /\ [][Observe]_<<vars, tid, l>>
=============================================================================
