SPECIFICATION TSpec
CONSTANTS MaxNodes = 100000
 NFeat = 1
 Ths = {}
 Grid = {}
 DEV_RootLeafRaises = FALSE
CHECK_DEADLOCK FALSE
