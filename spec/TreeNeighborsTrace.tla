------------------------- MODULE TreeNeighborsTrace -------------------------
(* code -> spec for mltree.tree_leave_neighbors on real scikit-learn trees.  A trace     *)
(* carries the tree_ arrays (thresholds and witness coordinates times 40, exact for      *)
(* half-integer thresholds) and the returned dictionary: keys (i, j) and, per key, the   *)
(* witnesses (feature, x1, x2).  Demanded: the keys are exactly the pairs of leaves      *)
(* whose boxes share a facet (FacetNeighbors) - and exactly what the grid mechanism of   *)
(* TreeBox computes -, i < j, and every witness is a pair of points that differ in the   *)
(* named feature only and are routed to the two leaves of the key.                       *)
EXTENDS TreeBox, TraceKit, SequencesExt
VARIABLES tid, l
T == Batch[tid]
TInit == /\ tid \in 1 .. Len(Batch) /\ l = 1
         /\ left = Batch[tid].left /\ right = Batch[tid].right
         /\ feat = Batch[tid].feat /\ th = Batch[tid].th
Pt(q) == [f \in 0 .. T.nfeat - 1 |-> q[f + 1]]
Keys == {<<T.keys[j][1], T.keys[j][2]>> : j \in 1 .. Len(T.keys)}
BadWitness == {j \in 1 .. Len(T.wit) :
                 LET w == T.wit[j] IN
                 \/ {Route(0, Pt(w.x1)), Route(0, Pt(w.x2))} # {w.i, w.j}
                 \/ \E f \in 1 .. T.nfeat : (f - 1 # w.f) /\ w.x1[f] # w.x2[f]
                 \/ w.x1[w.f + 1] = w.x2[w.f + 1]}
Observe == /\ l = 1
           /\ Require(\A k \in Keys : k[1] < k[2], T.id, "KeysOrdered", l, <<>>)
           /\ Require(Keys \subseteq TrueLeaves \X TrueLeaves, T.id, "KeysAreLeaves", l, [got |-> Keys])
           /\ Require(Keys = FacetNeighbors(T.nfeat), T.id, "NeighborsAreFacets", l,
                      [missing |-> FacetNeighbors(T.nfeat) \ Keys, extra |-> Keys \ FacetNeighbors(T.nfeat)])
           /\ Require(Keys = GridNeighbors(T.nfeat), T.id, "NeighborsAreGridNeighbors", l, <<>>)
           /\ Require(\A k \in Keys : \E j \in 1 .. Len(T.wit) : T.wit[j].i = k[1] /\ T.wit[j].j = k[2], T.id, "EveryKeyHasAWitness", l, <<>>)
           /\ Require(BadWitness = {}, T.id, "WitnessesStraddleTheBorder", l, [bad |-> BadWitness])
           /\ Accepted(T.id)
           /\ l' = 2 /\ UNCHANGED <<vars, tid>>
TSpec == TInit /\ [][Observe]_<<vars, tid, l>>
=============================================================================
