------------------------------- MODULE TsFrame -------------------------------
(* Framing of a time series into (lags | exogenous, targets, weights) rows.              *)
(* Anchors: mlinsights/timeseries/utils.py build_ts_X_y (use_all_past = FALSE,           *)
(* delay1 = 1: "the configuration the regressors use"), metrics.py ts_mape,              *)
(* dummies.py DummyTimeSeriesRegressor.                                                  *)
(*                                                                                       *)
(* Two layers (DESIGN 2.2):                                                              *)
(*   - the REQUIREMENT: index sets Lags/Targets/Exo/Wt of output row r and the properties*)
(*     a user relies on (NoLookAhead, ...);                                              *)
(*   - the MECHANISM, shaped like the code: allocate, copy the exogenous block, one      *)
(*     column per lag, one column per target, slice the weights, (pad).                  *)
(* The series is symbolic: y[t] = t, X[t,c] = 100*(c+1)+t, w[t] = 1000+t, so a cell of   *)
(* the produced table *is* the time index it was taken from.                             *)
EXTENDS Integers, Sequences, FiniteSets, TLC

CONSTANTS MaxN, MaxPast, MaxDelay2, MaxCol

NaN   == -1      \* numpy.nan
Unset == -2      \* numpy.empty: a cell the code never wrote

VARIABLES n, past, delay2, ncol, hasW, same,   \* the call
          pc, i,                               \* program counter and loop index
          tX, tY, tW                           \* the tables being produced
vars == <<n, past, delay2, ncol, hasW, same, pc, i, tX, tY, tW>>

delay1 == 1
Yv(t)    == t
Xv(t, c) == 100 * (c + 1) + t
Wv(t)    == 1000 + t

-----------------------------------------------------------------------------
(* Requirement layer: which time index each cell of output row r must hold.   *)
NRowOf(nn, p, d2) == nn - d2 - p + 2
NRow      == NRowOf(n, past, delay2)
Newest(r) == r + past - 1
Lags(r)   == [k \in 0 .. past - 1 |-> r + k]                       \* oldest first
Targets(r) == [k \in 0 .. delay2 - delay1 - 1 |-> Newest(r) + delay1 + k]
Exo(r)    == Newest(r)
Wt(r)     == Newest(r)
First     == n - NRow                                              \* padding rows of same_rows
NOut      == IF same THEN n ELSE NRow
Off       == IF same THEN First ELSE 0

\* the table the user is promised (row index R over the *output*, 0-based)
WantX(R, c) == IF R < Off THEN NaN
               ELSE IF c < ncol THEN Xv(Exo(R - Off), c) ELSE Yv(Lags(R - Off)[c - ncol])
WantY(R, k) == IF R < Off THEN NaN ELSE Yv(Targets(R - Off)[k])
WantW(R)    == Wv(Wt(R))      \* only claimed for same = FALSE (DESIGN C20, same_rows weights)

Max(S) == CHOOSE x \in S : \A z \in S : z <= x
Min(S) == CHOOSE x \in S : \A z \in S : x <= z
Ran(f) == {f[x] : x \in DOMAIN f}

\* Theorems about the requirement itself, checked by TLC for every configuration
NoLookAhead    == \A r \in 0 .. NRow - 1 : Max(Ran(Lags(r))) < Min(Ran(Targets(r)))
FirstAtDelay1  == \A r \in 0 .. NRow - 1 : Targets(r)[0] = Newest(r) + delay1
TargetsConsec  == \A r \in 0 .. NRow - 1 : \A k \in 1 .. delay2 - delay1 - 1 :
                      Targets(r)[k] = Targets(r)[k - 1] + 1
LagsConsec     == \A r \in 0 .. NRow - 1 : /\ \A k \in 1 .. past - 1 : Lags(r)[k] = Lags(r)[k - 1] + 1
                                          /\ Lags(r)[past - 1] = Newest(r)
InRange        == \A r \in 0 .. NRow - 1 : /\ \A k \in DOMAIN Lags(r) : Lags(r)[k] \in 0 .. n - 1
                                          /\ \A k \in DOMAIN Targets(r) : Targets(r)[k] \in 0 .. n - 1
UsesWholeSeries == /\ Lags(0)[0] = 0                                   \* nothing dropped at the start
                   /\ Targets(NRow - 1)[delay2 - delay1 - 1] = n - 1   \* nor at the end
RequirementOK == NoLookAhead /\ FirstAtDelay1 /\ TargetsConsec /\ LagsConsec /\ InRange
                 /\ UsesWholeSeries

-----------------------------------------------------------------------------
(* Mechanism layer: build_ts_X_y, one action per statement / loop iteration.  *)
Mat(rows, cols, v) == [r \in 0 .. rows - 1 |-> [c \in 0 .. cols - 1 |-> v]]

Init == /\ n \in 1 .. MaxN /\ past \in 1 .. MaxPast /\ delay2 \in 2 .. MaxDelay2
        /\ ncol \in 0 .. MaxCol /\ hasW \in BOOLEAN /\ same \in BOOLEAN
        /\ NRowOf(n, past, delay2) >= 1
        /\ pc = "alloc" /\ i = 0
        /\ tX = <<>> /\ tY = <<>> /\ tW = <<>>

Alloc == /\ pc = "alloc"
         /\ tX' = Mat(NOut, ncol + past, IF same THEN NaN ELSE Unset)
         /\ tY' = Mat(NOut, delay2 - delay1, IF same THEN NaN ELSE Unset)
         /\ pc' = "exo"
         /\ UNCHANGED <<n, past, delay2, ncol, hasW, same, i, tW>>

\* new_X[first:, :ncol] = X[past-1 : n-delay2+1]
CopyExo == /\ pc = "exo"
           /\ tX' = [R \in DOMAIN tX |-> [c \in DOMAIN tX[R] |->
                        IF R >= Off /\ c < ncol THEN Xv(past - 1 + (R - Off), c) ELSE tX[R][c]]]
           /\ pc' = "lag" /\ i' = 0
           /\ UNCHANGED <<n, past, delay2, ncol, hasW, same, tY, tW>>

\* for i in range(past): new_X[first:, i+ncol] = y[i:end]
LagCol == /\ pc = "lag" /\ i < past
          /\ tX' = [R \in DOMAIN tX |-> [c \in DOMAIN tX[R] |->
                        IF R >= Off /\ c = ncol + i THEN Yv(i + (R - Off)) ELSE tX[R][c]]]
          /\ i' = i + 1
          /\ UNCHANGED <<n, past, delay2, ncol, hasW, same, pc, tY, tW>>
LagEnd == /\ pc = "lag" /\ i = past /\ pc' = "tgt" /\ i' = delay1
          /\ UNCHANGED <<n, past, delay2, ncol, hasW, same, tX, tY, tW>>

\* for i in range(delay1, delay2): new_y[first:, i-delay1] = y[i+dec : i+nrow+dec], dec = past-1
TgtCol == /\ pc = "tgt" /\ i < delay2
          /\ tY' = [R \in DOMAIN tY |-> [k \in DOMAIN tY[R] |->
                        IF R >= Off /\ k = i - delay1 THEN Yv(i + (past - 1) + (R - Off)) ELSE tY[R][k]]]
          /\ i' = i + 1
          /\ UNCHANGED <<n, past, delay2, ncol, hasW, same, pc, tX, tW>>
TgtEnd == /\ pc = "tgt" /\ i = delay2 /\ pc' = "w"
          /\ UNCHANGED <<n, past, delay2, ncol, hasW, same, i, tX, tY, tW>>

\* weights[past-1 : past-1+nrow]   (same_rows: the caller's weights, untouched)
Weights == /\ pc = "w"
           /\ tW' = IF ~hasW THEN <<>>
                    ELSE IF same THEN [R \in 0 .. n - 1 |-> Wv(R)]
                    ELSE [R \in 0 .. NRow - 1 |-> Wv(past - 1 + R)]
           /\ pc' = "done"
           /\ UNCHANGED <<n, past, delay2, ncol, hasW, same, i, tX, tY>>

Return == pc = "done" /\ UNCHANGED vars
Next == Alloc \/ CopyExo \/ LagCol \/ LagEnd \/ TgtCol \/ TgtEnd \/ Weights \/ Return
Spec == Init /\ [][Next]_vars

-----------------------------------------------------------------------------
(* Mechanism => requirement *)
TableIsPromised ==
  pc = "done" =>
    /\ DOMAIN tX = 0 .. NOut - 1 /\ DOMAIN tY = 0 .. NOut - 1
    /\ \A R \in 0 .. NOut - 1 :
         /\ \A c \in 0 .. ncol + past - 1 : tX[R][c] = WantX(R, c)
         /\ \A k \in 0 .. delay2 - delay1 - 1 : tY[R][k] = WantY(R, k)
    /\ (hasW /\ ~same) => (DOMAIN tW = 0 .. NRow - 1 /\ \A R \in 0 .. NRow - 1 : tW[R] = WantW(R))
NothingUnset ==
  pc = "done" => \A R \in DOMAIN tX : /\ \A c \in DOMAIN tX[R] : tX[R][c] # Unset
                                      /\ \A k \in DOMAIN tY[R] : tY[R][k] # Unset
\* read off the produced table only (no reference to Want*): the look-ahead leak itself
TableNoLookAhead ==
  pc = "done" => \A R \in Off .. NOut - 1 :
      \A c \in ncol .. ncol + past - 1 : \A k \in DOMAIN tY[R] : tX[R][c] < tY[R][k]
Requirement == RequirementOK

=============================================================================
