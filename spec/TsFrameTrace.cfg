SPECIFICATION TSpec
CONSTANTS MaxN = 1000
          MaxPast = 1000
          MaxDelay2 = 1000
          MaxCol = 1000
CHECK_DEADLOCK FALSE
