---------------------------- MODULE TsFrameTrace ----------------------------
(* code -> spec: each trace is one real call of build_ts_X_y on the symbolic series.     *)
(* The call is ONE implementation step but several specification actions, so the         *)
(* mechanism's own actions (TsFrame!Alloc ... Weights) run as silent steps from the       *)
(* logged arguments, and the single logged event "build" is consumed in the state        *)
(* pc = "done": the tables the code returned must be the tables the specification built. *)
EXTENDS TsFrame, TraceKit

VARIABLES tid, l
T  == Batch[tid]
tvars == <<vars, tid, l>>

TInit == /\ tid \in 1 .. Len(Batch) /\ l = 1
         /\ n = Batch[tid].n /\ past = Batch[tid].past /\ delay2 = Batch[tid].delay2
         /\ ncol = Batch[tid].ncol /\ hasW = Batch[tid].hasW /\ same = Batch[tid].same
         /\ pc = "alloc" /\ i = 0 /\ tX = <<>> /\ tY = <<>> /\ tW = <<>>

Silent == /\ pc # "done" /\ l = 1
          /\ (Alloc \/ CopyExo \/ LagCol \/ LagEnd \/ TgtCol \/ TgtEnd \/ Weights)
          /\ UNCHANGED <<tid, l>>

\* first cell where the observed table differs from the specification's
BadX == {<<R, c>> \in (0 .. NOut - 1) \X (0 .. ncol + past - 1) :
            ~(R + 1 \in DOMAIN T.X /\ c + 1 \in DOMAIN T.X[R + 1] /\ T.X[R + 1][c + 1] = tX[R][c])}
BadY == {<<R, k>> \in (0 .. NOut - 1) \X (0 .. delay2 - delay1 - 1) :
            ~(R + 1 \in DOMAIN T.Y /\ k + 1 \in DOMAIN T.Y[R + 1] /\ T.Y[R + 1][k + 1] = tY[R][k])}
BadW == IF hasW /\ ~same
        THEN {R \in 0 .. NRow - 1 : ~(R + 1 \in DOMAIN T.W /\ T.W[R + 1] = tW[R])}
        ELSE {}
ShapeOK == /\ Len(T.X) = NOut /\ Len(T.Y) = NOut
           /\ \A R \in 1 .. Len(T.X) : Len(T.X[R]) = ncol + past
           /\ \A R \in 1 .. Len(T.Y) : Len(T.Y[R]) = delay2 - delay1
           /\ (hasW /\ ~same) => Len(T.W) = NRow
\* the leak itself, read off the observed table only
ObservedLookAhead == {<<R, c, k>> \in (Off + 1 .. Len(T.X)) \X (ncol + 1 .. ncol + past) \X (1 .. delay2 - delay1) :
                         R \in DOMAIN T.Y /\ c \in DOMAIN T.X[R] /\ k \in DOMAIN T.Y[R] /\ T.X[R][c] >= T.Y[R][k]}

\* DummyTimeSeriesRegressor.predict (kind "dummy"): the forecast of every horizon of output row R is the newest
\* lag of that row - strictly older than each target it is a forecast of
WantPred(R, k) == IF R < Off THEN NaN ELSE Yv(Newest(R - Off))
BadPred == {<<R, k>> \in (0 .. NOut - 1) \X (0 .. delay2 - delay1 - 1) :
              ~(R + 1 \in DOMAIN T.pred /\ k + 1 \in DOMAIN T.pred[R + 1] /\ T.pred[R + 1][k + 1] = WantPred(R, k))}
PredLooksAhead == {<<R, k>> \in (Off .. NOut - 1) \X (0 .. delay2 - delay1 - 1) :
              R + 1 \in DOMAIN T.pred /\ k + 1 \in DOMAIN T.pred[R + 1] /\ T.pred[R + 1][k + 1] >= WantY(R, k)}
ObserveDummy == /\ pc = "done" /\ l = 1 /\ T.kind = "dummy"
                /\ Require(BadPred = {}, T.id, "ForecastIsNewestLag", l, [cells |-> BadPred])
                /\ Require(PredLooksAhead = {}, T.id, "NoLookAhead", l, [cells |-> PredLooksAhead])
                /\ Accepted(T.id)
                /\ l' = 2 /\ UNCHANGED <<vars, tid>>

Observe == /\ pc = "done" /\ l = 1 /\ T.kind = "build"
           /\ Require(T.nrow = NRow, T.id, "NRow", l, [got |-> T.nrow, want |-> NRow])
           /\ Require(ShapeOK, T.id, "Shape", l, [rows |-> Len(T.X), want |-> NOut])
           /\ Require(BadX = {}, T.id, "LagsAndExogenous", l, [cells |-> BadX])
           /\ Require(BadY = {}, T.id, "Targets", l, [cells |-> BadY])
           /\ Require(BadW = {}, T.id, "Weights", l, [rows |-> BadW])
           /\ Require(ObservedLookAhead = {}, T.id, "NoLookAhead", l, [cells |-> ObservedLookAhead])
           /\ Require(RequirementOK, T.id, "Requirement", l, <<>>)
           \* the same call on a series of half-integers with the exogenous features held in a narrower dtype (integers,
           \* float32) gives the same table as with float64 features: the lags are values of the SERIES
           /\ Require(T.series_kept, T.id, "LagsAreSeriesValues", l, <<>>)
           /\ Accepted(T.id)
           /\ l' = 2 /\ UNCHANGED <<vars, tid>>

TNext == Silent \/ Observe \/ ObserveDummy
TSpec == TInit /\ [][TNext]_tvars
=============================================================================
