------------------------------- MODULE TsMape -------------------------------
(* ts_mape (mlinsights/timeseries/metrics.py) on integer series, as an exact rational   *)
(* num/den.  A NaN forecast (NaN = -1; series values are >= 0) masks its own position   *)
(* and the next one, in numerator and denominator alike - as the code's two masks do.   *)
EXTENDS Integers, Sequences, FiniteSets, TLC

CONSTANTS MaxLen, MaxVal
NaN == -1
VARIABLES e, p, w
vars == <<e, p, w>>

Abs(x) == IF x < 0 THEN -x ELSE x
RECURSIVE SumTo(_, _)
SumTo(f, m) == IF m < 2 THEN 0 ELSE f[m] + SumTo(f, m - 1)

Live(pp, t) == pp[t] # NaN /\ pp[t - 1] # NaN
Num(ee, pp, ww) == SumTo([t \in 2 .. Len(ee) |-> IF Live(pp, t) THEN Abs(pp[t] - ee[t]) * ww[t] ELSE 0], Len(ee))
Den(ee, pp, ww) == SumTo([t \in 2 .. Len(ee) |-> IF Live(pp, t) THEN Abs(ee[t] - ee[t - 1]) * ww[t] ELSE 0], Len(ee))
Naive(ee) == [t \in 1 .. Len(ee) |-> IF t = 1 THEN NaN ELSE ee[t - 1]]
Ones(m) == [t \in 1 .. m |-> 1]

Init == /\ \E m \in 2 .. MaxLen : /\ e \in [1 .. m -> 0 .. MaxVal]
                                  /\ p \in [1 .. m -> {NaN} \cup (0 .. MaxVal)]
                                  /\ w \in [1 .. m -> 1 .. 2]
Next == UNCHANGED vars
Spec == Init /\ [][Next]_vars

NonNegative == Num(e, p, w) >= 0 /\ Den(e, p, w) >= 0
\* the naive previous-value forecast scores exactly 1 (whenever the ratio is defined)
NaiveIsOne  == LET q == Naive(e) IN Den(e, q, w) # 0 => Num(e, q, w) = Den(e, q, w)
\* a perfect forecast scores 0
PerfectIsZero == Num(e, e, w) = 0
=============================================================================
