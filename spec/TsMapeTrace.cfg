SPECIFICATION TSpec
CONSTANTS MaxLen = 1000
          MaxVal = 1000
CHECK_DEADLOCK FALSE
