---------------------------- MODULE TsMapeTrace -----------------------------
(* code -> spec for ts_mape: the logged value (scaled by 10^6, rounded) must be the      *)
(* specification's exact ratio Num/Den within one unit of that scale.                    *)
EXTENDS TsMape, TraceKit
VARIABLES tid, l
T == Batch[tid]
Scale == 1000000
TInit == /\ tid \in 1 .. Len(Batch) /\ l = 1
         /\ e = Batch[tid].e /\ p = Batch[tid].p /\ w = Batch[tid].w
RatioOK(num, den, v) == IF den = 0 THEN (num = 0 /\ v = 0)
                        ELSE Abs(v * den - num * Scale) <= den
Observe == /\ l = 1
           /\ LET num == Num(e, p, w)  den == Den(e, p, w) IN
              /\ Require(RatioOK(num, den, T.v), T.id, "MapeIsRatio", l, [num |-> num, den |-> den, got |-> T.v])
              /\ Require(T.v >= 0, T.id, "NonNegative", l, [got |-> T.v])
              /\ Require(T.naive => (den # 0 => T.v = Scale), T.id, "NaiveIsOne", l, [got |-> T.v])
           /\ Accepted(T.id)
           /\ l' = 2 /\ UNCHANGED <<vars, tid>>
TSpec == TInit /\ [][Observe]_<<vars, tid, l>>
=============================================================================
