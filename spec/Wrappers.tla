-------------------------------- MODULE Wrappers --------------------------------
(* Learner-to-transformer wrappers (C15):                                                *)
(*   sklapi/sklearn_base_transform_learner.py   SkBaseTransformLearner                   *)
(*   sklapi/sklearn_base_transform_stacking.py  SkBaseTransformStacking                  *)
(*   mlmodel/transfer_transformer.py            TransferTransformer                      *)
(* A wrapped model is abstracted to the data set it was trained on (its signature): a    *)
(* recording model trained on rows R answers a row x with a value determined by (R, x).  *)
(* TransferTransformer machine: the caller's estimator `orig`, the working estimator     *)
(* `inner` used by transform, which may be the same object (copy_estimator = False) or a *)
(* copy with the fitted state; fit re-trains `inner` iff trainable.                      *)
EXTENDS Integers, Sequences, FiniteSets, TLC

CONSTANTS Datas,
          DEV_CopyShares      \* TRUE: the "copy" shares its fitted arrays with the original (views instead of copies)

VARIABLES copyFlag, trainable, orig, inner, aliased, fitted,
          last               \* what the CALLER last trained its own estimator on (history of the caller, not of the wrapper)
vars == <<copyFlag, trainable, orig, inner, aliased, fitted, last>>
Pre == "pretrained"                                  \* what the caller's estimator was trained on
Init == /\ copyFlag \in BOOLEAN /\ trainable \in BOOLEAN
        /\ orig = Pre /\ inner = "none" /\ aliased = FALSE /\ fitted = FALSE /\ last = Pre
\* TransferTransformer.fit(X, y): the working estimator is the caller's object or a copy of it AS IT IS NOW
Fit(d) == /\ aliased' = (~copyFlag \/ DEV_CopyShares)
          /\ inner' = IF trainable THEN d ELSE orig
          /\ orig' = IF trainable /\ (~copyFlag \/ DEV_CopyShares) THEN d ELSE orig
          /\ fitted' = TRUE /\ UNCHANGED <<copyFlag, trainable, last>>
\* the caller trains its own estimator again (between two fits of the wrapper): an aliased working estimator follows
Retrain(d) == /\ orig' = d /\ last' = d
              /\ inner' = IF aliased THEN d ELSE inner
              /\ UNCHANGED <<copyFlag, trainable, aliased, fitted>>
Next == \E d \in Datas : Fit(d) \/ Retrain(d)
Spec == Init /\ [][Next]_vars
\* unless trainable, the wrapper's fit never changes the wrapped estimator
Frozen == (fitted /\ ~trainable) => orig = last
\* with copy_estimator the original object is never modified by the wrapper
OriginalUntouched == copyFlag => orig = last
\* a non-trainable fit works with the estimator as it is at that fit (not with an older copy)
FreshCopy == [][\A d \in Datas : (Fit(d) /\ ~trainable) => inner' = orig]_vars
\* transform returns the working estimator's output
TrainsLikeDirect == (fitted /\ trainable) => inner \in Datas

-----------------------------------------------------------------------------
(* Expected outputs of recording members, used by WrappersTrace.                         *)
(* A regressor stub trained on rows R (targets y) answers row x with  sum(y[R]) + x ;    *)
(* a classifier stub answers the class of index (sum(R) + x) mod m, as a one-hot row.    *)
RECURSIVE SumSeq(_, _)
SumSeq(s, j) == IF j > Len(s) THEN 0 ELSE s[j] + SumSeq(s, j + 1)
RegOut(ys, x) == <<SumSeq(ys, 1) + x>>
ClfIndex(rows, x, m) == (SumSeq(rows, 1) + x) % m
OneHot(k, m) == [j \in 1 .. m |-> IF j = k + 1 THEN 1 ELSE 0]
RECURSIVE Concat(_, _)
Concat(ss, j) == IF j > Len(ss) THEN <<>> ELSE ss[j] \o Concat(ss, j + 1)
=============================================================================
