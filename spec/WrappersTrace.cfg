SPECIFICATION TSpec
CONSTANTS Datas = {"D"}
 DEV_CopyShares = FALSE
CHECK_DEADLOCK FALSE
