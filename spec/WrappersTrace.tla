----------------------------- MODULE WrappersTrace -----------------------------
(* code -> spec for the wrappers, with recording members (rows carry their id).          *)
(* kind "wrap":  SkBaseTransformLearner / SkBaseTransformStacking around stubs.          *)
(*    fit {members: [{rows, ys}]}         what each member was trained on by wrapper.fit  *)
(*    transform {x, out}                  one probe row and the wrapper's output row      *)
(* kind "transfer": TransferTransformer around a pre-trained stub.                        *)
(*    fit {d, inner_rows, orig_rows, same_object}   after wrapper.fit on data d           *)
(*    transform {x, out}                                                                  *)
EXTENDS Wrappers, TraceKit
VARIABLES tid, l, members
T   == Batch[tid]
NEv == Len(T.ev)
Ev  == T.ev[l]
TInit == /\ tid \in 1 .. Len(Batch) /\ l = 1 /\ members = <<>>
         /\ copyFlag = Batch[tid].copy /\ trainable = Batch[tid].trainable
         /\ orig = Pre /\ inner = "none" /\ aliased = FALSE /\ fitted = FALSE /\ last = Pre
Go == l' = l + 1 /\ UNCHANGED tid
Is(a) == l <= NEv /\ Ev.a = a
\* ---- learner / stacking
TWFit == /\ Is("fit") /\ T.kind = "wrap"
         /\ Require(\A j \in 1 .. Len(Ev.members) : Ev.members[j].rows = Ev.rows /\ Ev.members[j].ys = Ev.ys, T.id,
                    "TrainsLikeDirect", l, [members |-> Ev.members])
         /\ Require(\A j \in 1 .. Len(Ev.members) : Ev.members[j].ws = Ev.ws, T.id, "FitParamsReachMembers", l,
                    [given |-> Ev.ws, members |-> Ev.members])
         /\ Require(Ev.ft_equal, T.id, "FitTransformIsFitThenTransform", l, <<>>)
         /\ Require(Len(Ev.members) = T.nmembers, T.id, "TrainsLikeDirect", l, [got |-> Len(Ev.members), want |-> T.nmembers])
         /\ members' = Ev.members /\ UNCHANGED vars /\ Go
MemberOut(j, x) == IF T.stub = "reg" THEN RegOut(members[j].ys, x)
                   ELSE IF T.method = "predict" THEN <<T.classes[ClfIndex(members[j].rows, x, Len(T.classes)) + 1]>>
                   ELSE OneHot(ClfIndex(members[j].rows, x, Len(T.classes)), Len(T.classes))
TWTransform == /\ Is("transform") /\ T.kind = "wrap" /\ members # <<>>
               /\ LET want == Concat([j \in 1 .. Len(members) |-> MemberOut(j, Ev.x)], 1) IN
                  Require(Ev.out = want, T.id, IF Len(members) = 1 THEN "Transparent" ELSE "StackIsConcat", l,
                          [x |-> Ev.x, got |-> Ev.out, want |-> want])
               /\ Require(Ev.two_d, T.id, "OutputIs2D", l, <<>>)
               /\ UNCHANGED <<vars, members>> /\ Go
\* ---- transfer
RowsOf(sig) == IF sig = Pre THEN T.pre_rows ELSE IF sig = "E" THEN T.e_rows ELSE T.rows
YsOf(sig) == IF sig = Pre THEN T.pre_ys ELSE IF sig = "E" THEN T.e_ys ELSE T.ys
\* the caller retrains ITS estimator on the data set E between two fits of the wrapper
TTRetrain == /\ Is("retrain") /\ T.kind = "transfer" /\ Retrain("E") /\ UNCHANGED members /\ Go
TTFit == /\ Is("fit") /\ T.kind = "transfer"
         /\ Fit("D")
         /\ Require(Ev.inner_rows = RowsOf(inner'), T.id, IF trainable THEN "TrainsLikeDirect" ELSE "Frozen", l,
                    [got |-> Ev.inner_rows, want |-> RowsOf(inner')])
         /\ Require(Ev.orig_rows = RowsOf(orig'), T.id, IF copyFlag THEN "OriginalUntouched" ELSE "Frozen", l,
                    [got |-> Ev.orig_rows, want |-> RowsOf(orig')])
         /\ Require(Ev.same_object = ~copyFlag, T.id, "CopyIffAsked", l, [same_object |-> Ev.same_object])
         /\ UNCHANGED members /\ Go
TTTransform == /\ Is("transform") /\ T.kind = "transfer" /\ fitted
               /\ LET ys == YsOf(inner) IN
                  Require(Ev.out = RegOut(ys, Ev.x), T.id, "Transparent", l, [x |-> Ev.x, got |-> Ev.out, want |-> RegOut(ys, Ev.x)])
               /\ Require(Ev.orig_out = RegOut(YsOf(orig), Ev.x), T.id,
                          IF copyFlag THEN "OriginalUntouched" ELSE "Frozen", l, [x |-> Ev.x, got |-> Ev.orig_out])
               /\ UNCHANGED <<vars, members>> /\ Go
TRaised == Is("raised") /\ Failed(T.id, "CallSucceeds", l, [err |-> Ev.err]) /\ UNCHANGED <<vars, members>> /\ Go
TDone == /\ l = NEv + 1 /\ Accepted(T.id) /\ l' = NEv + 2 /\ UNCHANGED <<vars, members, tid>>
TNext == l >= 1 /\ (TWFit \/ TWTransform \/ TTFit \/ TTRetrain \/ TTTransform \/ TRaised \/ TDone)
TSpec == TInit /\ [][TNext]_<<vars, members, tid, l>>
=============================================================================
