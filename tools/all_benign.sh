#!/bin/sh
# re-run every kept property-preserving change against the current checks: each must stay quiet (rc=0)
cd /verif
ls benign | grep -v 'C10-r' | sed 's/-/ /' | xargs -P 4 -L 1 sh -c 'tools/benign.sh $0 $1 > /tmp/allbenign-$0-$1.txt 2>&1'
cat /tmp/allbenign-*.txt | cut -c1-200
