#!/bin/sh
# re-confirm every kept seed against the current /repo HEAD and the current checks (4 at a time)
cd /verif
ls seeded | sed 's/-/ /' | xargs -P 4 -L 1 sh -c 'tools/seed.sh $0 $1 > /tmp/allseeds-$0-$1.txt 2>&1'
cat /tmp/allseeds-*.txt | cut -c1-160
