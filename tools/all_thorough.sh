#!/bin/sh
cd /verif
for id in ${IDS:-C20 C11 C12 C19 C17 C13 C14 C18 C01 C02 C03 C04 C15 C16 C05 C10 C09 C08 C06 C07}; do
  s=$(date +%s)
  VERIF_EVIDENCE_DIR=/tmp/ev-thorough ./check $id --tier thorough > /tmp/thorough-$id.log 2>&1
  rc=$?
  echo "$id rc=$rc $(( $(date +%s) - s ))s $(tail -1 /tmp/thorough-$id.log | cut -c1-150)"
done
