#!/bin/sh
# tools/benign.sh <ID> <x> [check-id]  - a property-preserving change from /tmp/seed-out (or /verif/benign): the demo
# passes before and after, the 46 pinned tests pass, and the check must stay quiet (exit 0).
id="$1"; x="$2"; chk="${3:-$id}"
src="/tmp/seed-out/$id/$x"; [ -d "$src" ] || src="/verif/benign/$id-$x"
wt=$(mktemp -d /tmp/bw-XXXXXX); rmdir "$wt"
flock /tmp/wt.lock git -C /repo worktree add -q --detach "$wt" HEAD || exit 2
clean=$(cd "$wt" && MLREPO="$wt" timeout 900 /venv/bin/python "$src/demo.py" >/dev/null 2>&1; echo $?)
if ! ( cd "$wt" && { git apply "$src/patch.diff" 2>/dev/null || patch -p1 -s -F3 --no-backup-if-mismatch < "$src/patch.diff"; } ); then git -C /repo worktree remove --force "$wt"; echo "BENIGN $id-$x: patch does not apply"; exit 2; fi
patched=$(cd "$wt" && MLREPO="$wt" timeout 900 /venv/bin/python "$src/demo.py" >/dev/null 2>&1; echo $?)
tests=$(cd "$wt" && env -u MLINSIGHTS_VERIF /venv/bin/python -m pytest -q -p no:cacheprovider --timeout=900 --continue-on-collection-errors _unittests/ut_helpers _unittests/ut_metrics _unittests/ut_plotting/test_dot.py _unittests/ut_plotting/test_str.py _unittests/ut_sklapi 2>&1 | grep -Eo '[0-9]+ passed|[0-9]+ failed' | tr '\n' ' ')
ev=$(mktemp -d /tmp/mev-XXXXXX)
VERIF_REPO="$wt" VERIF_EVIDENCE_DIR="$ev" VERIF_REPLAY_DIR="$ev" /verif/check "$chk" --tier "${TIER:-quick}" > "$ev/out.txt" 2>&1
rc=$?
viol=$(grep -A2 '^VIOLATION' "$ev/out.txt" | grep -v '^VIOLATION\|^--' | head -4 | tr '\n' ';' | cut -c1-700)
echo "BENIGN $id-$x: demo clean=$clean patched=$patched tests=[$tests] check($chk) rc=$rc $viol"
if [ "$clean" = 0 ] && [ "$patched" = 0 ] && echo "$tests" | grep -q '^46 passed $'; then
  dst="/verif/benign/$id-$x"; mkdir -p "$dst"
  [ "$src" = "$dst" ] || cp "$src/patch.diff" "$src/demo.py" "$src/meta.json" "$dst/"
  /venv/bin/python - "$dst/meta.json" "$chk" "$rc" "$viol" <<'PY'
import json, sys
p, chk, rc, viol = sys.argv[1:5]
m = json.load(open(p))
c = m.setdefault("confirmed", {})
c["demo"] = "exit 0 on a clean worktree of /repo HEAD and exit 0 with patch.diff applied"
c["pinned_tests_with_patch"] = "46 passed"
c.setdefault("checks", {})[chk] = {"cmd": "VERIF_REPO=<worktree+patch> ./check %s --tier quick" % chk, "exit": int(rc),
                                   "quiet": int(rc) == 0, "violations": viol}
json.dump(m, open(p, "w"), indent=1)
PY
fi
flock /tmp/wt.lock git -C /repo worktree remove --force "$wt"; rm -rf "$ev"
