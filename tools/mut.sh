#!/bin/sh
# tools/mut.sh <patch.diff> <ID> [tier]  - run a check against a scratch worktree of /repo with the patch applied.
# Evidence/replays of the mutated run go to a scratch dir, the worktree is removed afterwards.
patch="$(realpath "$1")"; id="$2"; tier="${3:-quick}"
wt=$(mktemp -d /tmp/mw-XXXXXX); rmdir "$wt"
flock /tmp/wt.lock git -C /repo worktree add -q --detach "$wt" HEAD || exit 2
( cd "$wt" && git apply "$patch" ) || { git -C /repo worktree remove --force "$wt"; echo "patch does not apply"; exit 2; }
ev=$(mktemp -d /tmp/mev-XXXXXX)
VERIF_REPO="$wt" VERIF_EVIDENCE_DIR="$ev" VERIF_REPLAY_DIR="$ev" /verif/check "$id" --tier "$tier" | tail -${MUT_TAIL:-6}
rc=$?
flock /tmp/wt.lock git -C /repo worktree remove --force "$wt"; rm -rf "$ev"
exit $rc
