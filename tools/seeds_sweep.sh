#!/bin/sh
# run every quick check under several VERIF_SEED values on the unchanged tree: any non-zero exit is a false alarm to fix
cd /verif
for seed in ${SEEDS:-2 3 4 5 6 7}; do
  for id in C01 C02 C03 C04 C05 C06 C07 C08 C09 C10 C11 C12 C13 C14 C15 C16 C17 C18 C19 C20; do
    VERIF_SEED=$seed VERIF_EVIDENCE_DIR=/tmp/ev-sweep VERIF_REPLAY_DIR=/tmp/ev-sweep ./check $id > /tmp/sweep-$id-$seed.log 2>&1
    rc=$?
    [ $rc -ne 0 ] && echo "seed=$seed $id rc=$rc $(grep -A1 '^VIOLATION' /tmp/sweep-$id-$seed.log | grep clause | head -2 | tr '\n' ';' | cut -c1-250)"
  done
  echo "seed $seed done"
done
