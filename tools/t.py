#!/venv/bin/python
"""tools/t.py sany M... | mc M cfgfile-or-text [workers]  - short-output helpers for development"""
import sys, re
sys.path.insert(0, '/verif')
from harness import tlc
def short(out):
    i = out.find('*** Errors')
    j = out.find('***Parse Error***')
    k = min([x for x in (i, j) if x >= 0], default=-1)
    return out[k:k+900] if k >= 0 else out[-900:]
if sys.argv[1] == 'sany':
    for m in sys.argv[2:]:
        ok, out = tlc.sany(m)
        print(m, 'OK' if ok else 'FAIL')
        if not ok: print(short(out))
elif sys.argv[1] == 'mc':
    m, cfg = sys.argv[2], sys.argv[3]
    if not cfg.endswith('.cfg'): cfg = cfg.replace('\\n', '\n')
    w = int(sys.argv[4]) if len(sys.argv) > 4 else 8
    r = tlc.run(m, cfg, workers=w, coverage=True)
    print(r.summary(), r.error)
    print({k: v[1] for k, v in r.coverage.items()})
    if not r.ok:
        txt = r.stdout
        i = txt.find('Error:')
        print(txt[i:i+3500] if i >= 0 else txt[-2000:])
